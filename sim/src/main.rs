//! sim — deterministic event simulator for sliding_features (see /verif/DESIGN.md)
#![allow(dead_code, unused_mut)]

mod alloc;
mod dynview;
mod engine;
mod feed;
mod gen;
mod minimize;
mod props;
mod q;
mod rng;
mod runner;
mod scenario;
mod spec;

use props::Tier;

#[global_allocator]
static GLOBAL: alloc::Counting = alloc::Counting;

fn usage() -> ! {
    eprintln!("usage: sim run <PROP> <quick|thorough> [--seed N] [--workers N] [--runs N] [--from N] [--evidence F] [--part-out F] [--merge-part F]... [--replays DIR] [--known F] [--hash-only]\n       sim replay <file>\n       sim list");
    std::process::exit(2)
}

fn main() {
    engine::install_hook();
    let args: Vec<String> = std::env::args().collect();
    if args.len() < 2 {
        usage();
    }
    match args[1].as_str() {
        "list" => {
            for p in props::registry() {
                println!("{}", p.id());
            }
        }
        "profile" => println!("{}", runner::profile_short()),
        "replay" => {
            if args.len() < 3 {
                usage();
            }
            std::process::exit(runner::replay_file(&args[2]));
        }
        "run" => {
            if args.len() < 4 {
                usage();
            }
            let prop = match props::find(&args[2]) {
                Some(p) => p,
                None => {
                    eprintln!("HARNESS ERROR: unknown property {}", args[2]);
                    std::process::exit(2)
                }
            };
            let tier = match args[3].as_str() {
                "quick" => Tier::Quick,
                "thorough" => Tier::Thorough,
                _ => usage(),
            };
            let seed = std::env::var("VERIF_SEED").ok().and_then(|s| s.trim().parse::<u64>().ok()).unwrap_or(runner::DEFAULT_SEED);
            let workers = std::env::var("VERIF_WORKERS").ok().and_then(|s| s.parse().ok()).unwrap_or_else(|| std::thread::available_parallelism().map(|n| n.get()).unwrap_or(4).min(16));
            let mut o = runner::Opts {
                prop: args[2].clone(),
                tier,
                seed,
                workers,
                runs_override: None,
                evidence: None,
                part_out: None,
                merge_parts: vec![],
                replays_dir: "/verif/replays".into(),
                known: None,
                quiet: false,
                only_hash: false,
                dump_hashes: None,
                from: 0,
            };
            let mut i = 4;
            while i < args.len() {
                let need = |i: usize| -> String { args.get(i + 1).cloned().unwrap_or_else(|| usage()) };
                match args[i].as_str() {
                    "--seed" => {
                        o.seed = need(i).parse().unwrap_or_else(|_| usage());
                        i += 1
                    }
                    "--workers" => {
                        o.workers = need(i).parse().unwrap_or_else(|_| usage());
                        i += 1
                    }
                    "--runs" => {
                        o.runs_override = Some(need(i).parse().unwrap_or_else(|_| usage()));
                        i += 1
                    }
                    "--from" => {
                        o.from = need(i).parse().unwrap_or_else(|_| usage());
                        i += 1
                    }
                    "--evidence" => {
                        o.evidence = Some(need(i));
                        i += 1
                    }
                    "--part-out" => {
                        o.part_out = Some(need(i));
                        i += 1
                    }
                    "--merge-part" => {
                        o.merge_parts.push(need(i));
                        i += 1
                    }
                    "--replays" => {
                        o.replays_dir = need(i);
                        i += 1
                    }
                    "--known" => {
                        o.known = Some(need(i));
                        i += 1
                    }
                    "--hash-only" => o.only_hash = true,
                    "--dump-hashes" => {
                        o.dump_hashes = Some(need(i));
                        i += 1
                    }
                    "--quiet" => o.quiet = true,
                    _ => usage(),
                }
                i += 1;
            }
            std::process::exit(runner::run(prop.as_ref(), &o));
        }
        _ => usage(),
    }
}
