//! Crash containment: every call into a view runs under catch_unwind; the panic hook is silent and
//! records message + location so that the caller can attribute the crash.

use crate::dynview::{build, Ctx, Dyn, Scalar};
use crate::spec::Spec;
use sliding_features::View;
use std::cell::RefCell;
use std::panic::{catch_unwind, AssertUnwindSafe};

#[derive(Clone, Debug)]
pub struct PanicInfo {
    pub msg: String,
    pub loc: String,
}
impl PanicInfo {
    /// a panic raised by harness code (not by the library) is a harness error, never a violation
    pub fn is_harness(&self) -> bool {
        if self.msg.starts_with("HARNESS") {
            return true;
        }
        // guarded() only wraps calls into views, so a panic located in std (/rustc/...) was raised on
        // behalf of library code; only locations inside this crate's own sources are harness bugs.
        let lib = self.loc.contains("src/sliding_windows/")
            || self.loc.contains("src/rolling/")
            || self.loc.contains("src/pure_functions/")
            || self.loc.contains("/repo/");
        if lib {
            return false;
        }
        self.loc.starts_with("src/") || self.loc.contains("/verif/")
    }
    /// stable key: file:line of the panic site
    pub fn key(&self) -> String {
        // strip column
        let mut parts: Vec<&str> = self.loc.split(':').collect();
        if parts.len() >= 3 {
            parts.pop();
        }
        let loc = parts.join(":");
        // wherever the library checkout lives, name the site relative to its src/ directory
        match loc.rfind("/src/") {
            Some(i) => loc[i + 1..].to_string(),
            None => loc,
        }
    }
}

thread_local! {
    static LAST_PANIC: RefCell<Option<PanicInfo>> = const { RefCell::new(None) };
    /// cooperative per-run wall-clock budget (a changed library can make single updates thousands of times
    /// slower, e.g. a window that is never evicted and is rescanned on every update)
    static DEADLINE: std::cell::Cell<Option<std::time::Instant>> = const { std::cell::Cell::new(None) };
    static TICKS: std::cell::Cell<u32> = const { std::cell::Cell::new(0) };
}

pub const RUN_BUDGET_SECS: u64 = 90;

/// start the budget of the run executing on this thread
pub fn arm_deadline() {
    DEADLINE.with(|d| d.set(Some(std::time::Instant::now() + std::time::Duration::from_secs(RUN_BUDGET_SECS))));
    TICKS.with(|t| t.set(0));
}
pub fn disarm_deadline() {
    DEADLINE.with(|d| d.set(None));
}
#[inline]
fn deadline_passed() -> bool {
    let n = TICKS.with(|t| {
        let n = t.get().wrapping_add(1);
        t.set(n);
        n
    });
    if n % 2048 != 0 {
        return false;
    }
    DEADLINE.with(|d| match d.get() {
        Some(dl) => std::time::Instant::now() > dl,
        None => false,
    })
}
pub const TIMEOUT_MSG: &str = "RUN-TIME-BUDGET";
impl PanicInfo {
    pub fn is_timeout(&self) -> bool {
        self.msg == TIMEOUT_MSG
    }
}

pub fn install_hook() {
    std::panic::set_hook(Box::new(|info| {
        let msg = if let Some(s) = info.payload().downcast_ref::<&str>() {
            s.to_string()
        } else if let Some(s) = info.payload().downcast_ref::<String>() {
            s.clone()
        } else {
            "<non-string panic>".to_string()
        };
        let loc = info.location().map(|l| format!("{}:{}:{}", l.file(), l.line(), l.column())).unwrap_or_default();
        let pi = PanicInfo { msg, loc };
        if pi.is_harness() {
            eprintln!("HARNESS ERROR: panic in harness code: {} at {}", pi.msg, pi.loc);
        }
        let _ = LAST_PANIC.try_with(|p| *p.borrow_mut() = Some(pi));
    }));
}

pub fn guarded<R>(f: impl FnOnce() -> R) -> Result<R, PanicInfo> {
    match catch_unwind(AssertUnwindSafe(f)) {
        Ok(r) => Ok(r),
        Err(_) => {
            let p = LAST_PANIC.with(|p| p.borrow_mut().take()).unwrap_or(PanicInfo { msg: "<unknown>".into(), loc: String::new() });
            if p.is_harness() {
                // fatal: do not let a harness bug masquerade as a property result
                eprintln!("HARNESS ERROR: panic in harness code: {} at {}", p.msg, p.loc);
                std::process::exit(2);
            }
            Err(p)
        }
    }
}

pub fn try_build<T: Scalar>(spec: &Spec, ctx: &mut Ctx) -> Result<Dyn<T>, PanicInfo> {
    guarded(|| build::<T>(spec, ctx))
}
#[inline]
pub fn try_update<T: Scalar>(v: &mut Dyn<T>, x: T) -> Result<(), PanicInfo> {
    if deadline_passed() {
        // reported to the caller like a crash of the node; every property counts it as a skipped run
        return Err(PanicInfo { msg: TIMEOUT_MSG.into(), loc: String::new() });
    }
    guarded(|| v.update(x))
}
#[inline]
pub fn try_last<T: Scalar>(v: &Dyn<T>) -> Result<Option<T>, PanicInfo> {
    guarded(|| v.last())
}
pub fn try_clone<T: Scalar>(v: &Dyn<T>) -> Result<Dyn<T>, PanicInfo> {
    guarded(|| v.clone())
}
pub fn try_drop<T: Scalar>(v: Dyn<T>) -> Result<(), PanicInfo> {
    guarded(move || drop(v))
}

/// bit pattern of an optional output, for exact comparison (NaNs compare by payload)
#[inline]
pub fn obits(v: Option<f64>) -> Option<u64> {
    v.map(|x| x.to_bits())
}
