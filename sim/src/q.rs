//! The arithmetic seam: an exact scalar `Q` implementing `num::Float`, so that the library's own
//! generic code can be instantiated in real (rational) arithmetic.
//!
//! `+ - * /`, comparisons, abs, signum, powi, floor/ceil are exact. The transcendental functions
//! (sqrt, exp, ln, log2, cos, sin, tanh, ...) round the exact argument to f64, apply the f64 function
//! and convert the result back exactly: a *deterministic function of the exact argument*. Hence two
//! replicas whose internal states are equal as real numbers produce equal outputs, with no tolerance.
//!
//! Representation: small rationals inline (i64/i64, reduced), everything else as a handle into a
//! per-thread arena of BigRational (reset between runs). IEEE-like specials NaN / +-Inf.

use num::bigint::BigInt;
use num::rational::BigRational;
use num::traits::{Num, NumCast, One, ToPrimitive, Zero};
use num::{Float, Signed};
use std::cell::RefCell;
use std::cmp::Ordering;
use std::num::FpCategory;
use std::ops::{Add, Div, Mul, Neg, Rem, Sub};

#[derive(Clone, Copy)]
pub enum Q {
    /// n/d with d > 0 and gcd(|n|, d) = 1
    R(i64, i64),
    Big(u32),
    Nan,
    PInf,
    NInf,
}

thread_local! {
    static ARENA: RefCell<Vec<BigRational>> = const { RefCell::new(Vec::new()) };
    /// work meter: total bits of all big rationals created since the last reset
    static METER: std::cell::Cell<u64> = const { std::cell::Cell::new(0) };
}

pub fn meter() -> u64 {
    METER.with(|m| m.get())
}

pub fn arena_reset() {
    ARENA.with(|a| a.borrow_mut().clear());
    METER.with(|m| m.set(0));
}
pub fn arena_len() -> usize {
    ARENA.with(|a| a.borrow().len())
}

fn gcd_u128(mut a: u128, mut b: u128) -> u128 {
    while b != 0 {
        let t = a % b;
        a = b;
        b = t;
    }
    a
}

fn big_of(n: i128, d: i128) -> BigRational {
    BigRational::new(BigInt::from(n), BigInt::from(d))
}

fn store(b: BigRational) -> Q {
    // normalise: small values go back inline
    if let (Some(n), Some(d)) = (b.numer().to_i64(), b.denom().to_i64()) {
        if n != i64::MIN {
            return Q::R(n, d);
        }
    }
    METER.with(|m| m.set(m.get() + b.numer().bits() + b.denom().bits()));
    ARENA.with(|a| {
        let mut a = a.borrow_mut();
        a.push(b);
        Q::Big((a.len() - 1) as u32)
    })
}

/// n/d (d != 0) in i128 -> reduced Q
fn make(mut n: i128, mut d: i128) -> Q {
    if d < 0 {
        n = -n;
        d = -d;
    }
    if n == 0 {
        return Q::R(0, 1);
    }
    let g = gcd_u128(n.unsigned_abs(), d as u128) as i128;
    n /= g;
    d /= g;
    if n > i64::MIN as i128 && n <= i64::MAX as i128 && d <= i64::MAX as i128 {
        Q::R(n as i64, d as i64)
    } else {
        store(big_of(n, d))
    }
}

impl Q {
    pub fn zero() -> Q {
        Q::R(0, 1)
    }
    pub fn int(n: i64) -> Q {
        Q::R(n, 1)
    }
    fn big(self) -> Option<BigRational> {
        match self {
            Q::R(n, d) => Some(BigRational::new_raw(BigInt::from(n), BigInt::from(d))),
            Q::Big(i) => Some(ARENA.with(|a| a.borrow()[i as usize].clone())),
            _ => None,
        }
    }
    pub fn is_special(self) -> bool {
        matches!(self, Q::Nan | Q::PInf | Q::NInf)
    }
    /// sign: -1, 0, 1 (NaN -> 0)
    fn sgn(self) -> i32 {
        match self {
            Q::R(n, _) => n.signum() as i32,
            Q::Big(i) => ARENA.with(|a| {
                let a = a.borrow();
                if a[i as usize].is_positive() {
                    1
                } else if a[i as usize].is_negative() {
                    -1
                } else {
                    0
                }
            }),
            Q::Nan => 0,
            Q::PInf => 1,
            Q::NInf => -1,
        }
    }
    /// exact conversion of a finite f64
    pub fn from_f64_exact(x: f64) -> Q {
        if x.is_nan() {
            return Q::Nan;
        }
        if x.is_infinite() {
            return if x > 0.0 { Q::PInf } else { Q::NInf };
        }
        if x == 0.0 {
            return Q::R(0, 1);
        }
        let (m, e, s) = Float::integer_decode(x);
        let m = m as i128 * s as i128;
        if e >= 0 {
            if e < 60 {
                return make(m << e, 1);
            }
        } else if -e < 120 {
            // m / 2^-e : strip common powers of two first
            let tz = (m.unsigned_abs().trailing_zeros() as i16).min(-e);
            let m2 = m >> tz;
            let sh = -e - tz;
            if sh < 63 {
                return make(m2, 1i128 << sh);
            }
        }
        store(BigRational::from_float(x).expect("finite"))
    }
    pub fn to_f64_lossy(self) -> f64 {
        match self {
            Q::R(n, d) => {
                if d == 1 {
                    n as f64
                } else if n.unsigned_abs() < (1u64 << 53) && (d as u64) < (1u64 << 53) {
                    n as f64 / d as f64
                } else {
                    big_of(n as i128, d as i128).to_f64().unwrap_or(f64::NAN)
                }
            }
            Q::Big(i) => ARENA.with(|a| a.borrow()[i as usize].to_f64().unwrap_or(f64::NAN)),
            Q::Nan => f64::NAN,
            Q::PInf => f64::INFINITY,
            Q::NInf => f64::NEG_INFINITY,
        }
    }
    fn via(self, f: impl Fn(f64) -> f64) -> Q {
        Q::from_f64_exact(f(self.to_f64_lossy()))
    }
    /// exact textual form for reports
    pub fn show(self) -> String {
        match self {
            Q::R(n, d) => {
                if d == 1 {
                    format!("{}", n)
                } else {
                    format!("{}/{} (~{})", n, d, self.to_f64_lossy())
                }
            }
            Q::Big(_) => {
                let s = format!("{}", self.big().unwrap());
                if s.len() > 60 {
                    format!("~{} (big rational, {} digits)", self.to_f64_lossy(), s.len())
                } else {
                    format!("{} (~{})", s, self.to_f64_lossy())
                }
            }
            Q::Nan => "NaN".into(),
            Q::PInf => "inf".into(),
            Q::NInf => "-inf".into(),
        }
    }
}

impl std::fmt::Debug for Q {
    fn fmt(&self, f: &mut std::fmt::Formatter<'_>) -> std::fmt::Result {
        f.write_str(&self.show())
    }
}

impl PartialEq for Q {
    fn eq(&self, o: &Q) -> bool {
        match (*self, *o) {
            (Q::Nan, _) | (_, Q::Nan) => false,
            (Q::PInf, Q::PInf) | (Q::NInf, Q::NInf) => true,
            (Q::R(a, b), Q::R(c, d)) => a == c && b == d,
            (x, y) => {
                if x.is_special() || y.is_special() {
                    false
                } else {
                    x.big() == y.big()
                }
            }
        }
    }
}

impl PartialOrd for Q {
    fn partial_cmp(&self, o: &Q) -> Option<Ordering> {
        match (*self, *o) {
            (Q::Nan, _) | (_, Q::Nan) => None,
            (Q::PInf, Q::PInf) | (Q::NInf, Q::NInf) => Some(Ordering::Equal),
            (Q::PInf, _) | (_, Q::NInf) => Some(Ordering::Greater),
            (Q::NInf, _) | (_, Q::PInf) => Some(Ordering::Less),
            (Q::R(a, b), Q::R(c, d)) => Some((a as i128 * d as i128).cmp(&(c as i128 * b as i128))),
            (x, y) => x.big().unwrap().partial_cmp(&y.big().unwrap()),
        }
    }
}

impl Neg for Q {
    type Output = Q;
    fn neg(self) -> Q {
        match self {
            Q::R(n, d) => Q::R(-n, d),
            Q::Big(_) => store(-self.big().unwrap()),
            Q::Nan => Q::Nan,
            Q::PInf => Q::NInf,
            Q::NInf => Q::PInf,
        }
    }
}

impl Add for Q {
    type Output = Q;
    fn add(self, o: Q) -> Q {
        match (self, o) {
            (Q::Nan, _) | (_, Q::Nan) => Q::Nan,
            (Q::PInf, Q::NInf) | (Q::NInf, Q::PInf) => Q::Nan,
            (Q::PInf, _) | (_, Q::PInf) => Q::PInf,
            (Q::NInf, _) | (_, Q::NInf) => Q::NInf,
            (Q::R(a, b), Q::R(c, d)) => {
                if b == d {
                    make(a as i128 + c as i128, b as i128)
                } else {
                    match (b as i128).checked_mul(d as i128) {
                        Some(den) => make(a as i128 * d as i128 + c as i128 * b as i128, den),
                        None => store(self.big().unwrap() + o.big().unwrap()),
                    }
                }
            }
            (x, y) => store(x.big().unwrap() + y.big().unwrap()),
        }
    }
}
impl Sub for Q {
    type Output = Q;
    fn sub(self, o: Q) -> Q {
        self + (-o)
    }
}
impl Mul for Q {
    type Output = Q;
    fn mul(self, o: Q) -> Q {
        match (self, o) {
            (Q::Nan, _) | (_, Q::Nan) => Q::Nan,
            (x, y) if x.is_special() || y.is_special() => {
                let s = x.sgn() * y.sgn();
                if s == 0 {
                    Q::Nan
                } else if s > 0 {
                    Q::PInf
                } else {
                    Q::NInf
                }
            }
            (Q::R(a, b), Q::R(c, d)) => make(a as i128 * c as i128, b as i128 * d as i128),
            (x, y) => store(x.big().unwrap() * y.big().unwrap()),
        }
    }
}
impl Div for Q {
    type Output = Q;
    fn div(self, o: Q) -> Q {
        match (self, o) {
            (Q::Nan, _) | (_, Q::Nan) => Q::Nan,
            (x, y) if x.is_special() && y.is_special() => Q::Nan,
            (x, y) if x.is_special() => {
                // inf / finite: sign of y (zero counts as positive, like +0.0)
                let sy = if y.sgn() < 0 { -1 } else { 1 };
                if x.sgn() * sy > 0 {
                    Q::PInf
                } else {
                    Q::NInf
                }
            }
            (_, y) if y.is_special() => Q::R(0, 1),
            (x, y) => {
                if y.sgn() == 0 {
                    return match x.sgn() {
                        0 => Q::Nan,
                        1 => Q::PInf,
                        _ => Q::NInf,
                    };
                }
                match (x, y) {
                    (Q::R(a, b), Q::R(c, d)) => make(a as i128 * d as i128, b as i128 * c as i128),
                    _ => store(x.big().unwrap() / y.big().unwrap()),
                }
            }
        }
    }
}
impl Rem for Q {
    type Output = Q;
    fn rem(self, o: Q) -> Q {
        if self.is_special() || o.is_special() || o.sgn() == 0 {
            return Q::Nan;
        }
        store(self.big().unwrap() % o.big().unwrap())
    }
}

impl Zero for Q {
    fn zero() -> Q {
        Q::R(0, 1)
    }
    fn is_zero(&self) -> bool {
        !self.is_special() && self.sgn() == 0
    }
}
impl One for Q {
    fn one() -> Q {
        Q::R(1, 1)
    }
}
impl Num for Q {
    type FromStrRadixErr = ();
    fn from_str_radix(_s: &str, _r: u32) -> Result<Q, ()> {
        Err(())
    }
}
impl ToPrimitive for Q {
    fn to_i64(&self) -> Option<i64> {
        match *self {
            Q::R(n, d) => Some(n / d),
            Q::Big(_) => self.big().unwrap().to_integer().to_i64(),
            _ => None,
        }
    }
    fn to_u64(&self) -> Option<u64> {
        self.to_i64().and_then(|x| if x >= 0 { Some(x as u64) } else { None })
    }
    fn to_f64(&self) -> Option<f64> {
        Some(self.to_f64_lossy())
    }
}
impl NumCast for Q {
    fn from<T: ToPrimitive>(n: T) -> Option<Q> {
        // floats must not be truncated: go through f64 unless the value is an exactly representable integer
        if let Some(f) = n.to_f64() {
            if f.is_finite() && f.fract() == 0.0 && f.abs() < 9.0e15 {
                if let Some(i) = n.to_i64() {
                    if i as f64 == f {
                        return Some(Q::R(i, 1));
                    }
                }
            }
            return Some(Q::from_f64_exact(f));
        }
        n.to_i64().map(|i| Q::R(i, 1))
    }
}

impl Float for Q {
    fn nan() -> Q {
        Q::Nan
    }
    fn infinity() -> Q {
        Q::PInf
    }
    fn neg_infinity() -> Q {
        Q::NInf
    }
    fn neg_zero() -> Q {
        Q::R(0, 1)
    }
    fn epsilon() -> Q {
        Q::from_f64_exact(f64::EPSILON)
    }
    fn min_value() -> Q {
        Q::from_f64_exact(f64::MIN)
    }
    fn min_positive_value() -> Q {
        Q::from_f64_exact(f64::MIN_POSITIVE)
    }
    fn max_value() -> Q {
        Q::from_f64_exact(f64::MAX)
    }
    fn is_nan(self) -> bool {
        matches!(self, Q::Nan)
    }
    fn is_infinite(self) -> bool {
        matches!(self, Q::PInf | Q::NInf)
    }
    fn is_finite(self) -> bool {
        !self.is_special()
    }
    fn is_normal(self) -> bool {
        !self.is_special() && self.sgn() != 0
    }
    fn classify(self) -> FpCategory {
        match self {
            Q::Nan => FpCategory::Nan,
            Q::PInf | Q::NInf => FpCategory::Infinite,
            _ => {
                if self.sgn() == 0 {
                    FpCategory::Zero
                } else {
                    FpCategory::Normal
                }
            }
        }
    }
    fn floor(self) -> Q {
        if self.is_special() {
            return self;
        }
        store(self.big().unwrap().floor())
    }
    fn ceil(self) -> Q {
        if self.is_special() {
            return self;
        }
        store(self.big().unwrap().ceil())
    }
    fn round(self) -> Q {
        if self.is_special() {
            return self;
        }
        store(self.big().unwrap().round())
    }
    fn trunc(self) -> Q {
        if self.is_special() {
            return self;
        }
        store(self.big().unwrap().trunc())
    }
    fn fract(self) -> Q {
        if self.is_special() {
            return Q::Nan;
        }
        store(self.big().unwrap().fract())
    }
    fn abs(self) -> Q {
        if self.sgn() < 0 {
            -self
        } else {
            self
        }
    }
    /// like f64 with +0.0: zero has positive sign
    fn signum(self) -> Q {
        match self {
            Q::Nan => Q::Nan,
            _ => {
                if self.sgn() < 0 {
                    Q::R(-1, 1)
                } else {
                    Q::R(1, 1)
                }
            }
        }
    }
    fn is_sign_positive(self) -> bool {
        self.sgn() >= 0 && !self.is_nan()
    }
    fn is_sign_negative(self) -> bool {
        self.sgn() < 0
    }
    fn mul_add(self, a: Q, b: Q) -> Q {
        self * a + b
    }
    fn recip(self) -> Q {
        Q::R(1, 1) / self
    }
    fn powi(self, n: i32) -> Q {
        let mut acc = Q::R(1, 1);
        let mut base = if n < 0 { Q::R(1, 1) / self } else { self };
        let mut e = n.unsigned_abs();
        while e > 0 {
            if e & 1 == 1 {
                acc = acc * base;
            }
            e >>= 1;
            if e > 0 {
                base = base * base;
            }
        }
        acc
    }
    fn powf(self, n: Q) -> Q {
        let e = n.to_f64_lossy();
        self.via(|x| x.powf(e))
    }
    fn sqrt(self) -> Q {
        // exact when the argument is a perfect square of small rationals
        if let Q::R(n, d) = self {
            if n >= 0 {
                let rn = (n as f64).sqrt() as i64;
                let rd = (d as f64).sqrt() as i64;
                for a in [rn - 1, rn, rn + 1] {
                    for b in [rd - 1, rd, rd + 1] {
                        if a >= 0 && b > 0 && a.checked_mul(a) == Some(n) && b.checked_mul(b) == Some(d) {
                            return make(a as i128, b as i128);
                        }
                    }
                }
            }
        }
        self.via(f64::sqrt)
    }
    fn exp(self) -> Q {
        self.via(f64::exp)
    }
    fn exp2(self) -> Q {
        self.via(f64::exp2)
    }
    fn ln(self) -> Q {
        self.via(f64::ln)
    }
    fn log(self, base: Q) -> Q {
        let b = base.to_f64_lossy();
        self.via(|x| x.log(b))
    }
    fn log2(self) -> Q {
        self.via(f64::log2)
    }
    fn log10(self) -> Q {
        self.via(f64::log10)
    }
    fn max(self, o: Q) -> Q {
        if self.is_nan() {
            return o;
        }
        if o.is_nan() {
            return self;
        }
        if self >= o {
            self
        } else {
            o
        }
    }
    fn min(self, o: Q) -> Q {
        if self.is_nan() {
            return o;
        }
        if o.is_nan() {
            return self;
        }
        if self <= o {
            self
        } else {
            o
        }
    }
    fn abs_sub(self, o: Q) -> Q {
        if self <= o {
            Q::R(0, 1)
        } else {
            self - o
        }
    }
    fn cbrt(self) -> Q {
        self.via(f64::cbrt)
    }
    fn hypot(self, o: Q) -> Q {
        (self * self + o * o).sqrt()
    }
    fn sin(self) -> Q {
        self.via(f64::sin)
    }
    fn cos(self) -> Q {
        self.via(f64::cos)
    }
    fn tan(self) -> Q {
        self.via(f64::tan)
    }
    fn asin(self) -> Q {
        self.via(f64::asin)
    }
    fn acos(self) -> Q {
        self.via(f64::acos)
    }
    fn atan(self) -> Q {
        self.via(f64::atan)
    }
    fn atan2(self, o: Q) -> Q {
        let y = o.to_f64_lossy();
        self.via(|x| x.atan2(y))
    }
    fn sin_cos(self) -> (Q, Q) {
        (self.sin(), self.cos())
    }
    fn exp_m1(self) -> Q {
        self.via(f64::exp_m1)
    }
    fn ln_1p(self) -> Q {
        self.via(f64::ln_1p)
    }
    fn sinh(self) -> Q {
        self.via(f64::sinh)
    }
    fn cosh(self) -> Q {
        self.via(f64::cosh)
    }
    fn tanh(self) -> Q {
        self.via(f64::tanh)
    }
    fn asinh(self) -> Q {
        self.via(f64::asinh)
    }
    fn acosh(self) -> Q {
        self.via(f64::acosh)
    }
    fn atanh(self) -> Q {
        self.via(f64::atanh)
    }
    fn integer_decode(self) -> (u64, i16, i8) {
        Float::integer_decode(self.to_f64_lossy())
    }
}

impl crate::dynview::Scalar for Q {
    fn of(x: f64) -> Q {
        Q::from_f64_exact(x)
    }
    fn f(self) -> f64 {
        self.to_f64_lossy()
    }
    fn work() -> u64 {
        meter()
    }
}

#[cfg(test)]
mod tests {
    use super::*;
    #[test]
    fn basics() {
        arena_reset();
        let a = Q::from_f64_exact(0.1);
        let b = Q::from_f64_exact(0.2);
        let c = a + b;
        assert!(c != Q::from_f64_exact(0.3));
        assert_eq!((Q::int(1) / Q::int(3) * Q::int(3)), Q::int(1));
        assert!(Q::int(2).sqrt() * Q::int(2).sqrt() != Q::int(2));
        assert_eq!(Q::R(9, 4).sqrt(), Q::R(3, 2));
        assert_eq!(<Q as NumCast>::from(0.85f64).unwrap(), Q::from_f64_exact(0.85));
        assert_eq!(<Q as NumCast>::from(16usize).unwrap(), Q::int(16));
        assert!((Q::int(1) / Q::zero()).is_infinite());
        assert!((Q::zero() / Q::zero()).is_nan());
        let big = Q::from_f64_exact(1e300) * Q::from_f64_exact(1e300);
        assert!(big.is_finite());
        assert!(big > Q::from_f64_exact(f64::MAX));
    }
}

// Convenience traits a maintainer might add to the scalar bound of a view (`T: Float + AddAssign`, `Default`,
// `Sum`, ...): implemented so that such a change still compiles against the exact-arithmetic harness.
impl Default for Q {
    fn default() -> Q {
        Q::R(0, 1)
    }
}
impl std::fmt::Display for Q {
    fn fmt(&self, f: &mut std::fmt::Formatter<'_>) -> std::fmt::Result {
        f.write_str(&self.show())
    }
}
impl std::ops::AddAssign for Q {
    fn add_assign(&mut self, o: Q) {
        *self = *self + o
    }
}
impl std::ops::SubAssign for Q {
    fn sub_assign(&mut self, o: Q) {
        *self = *self - o
    }
}
impl std::ops::MulAssign for Q {
    fn mul_assign(&mut self, o: Q) {
        *self = *self * o
    }
}
impl std::ops::DivAssign for Q {
    fn div_assign(&mut self, o: Q) {
        *self = *self / o
    }
}
impl std::ops::RemAssign for Q {
    fn rem_assign(&mut self, o: Q) {
        *self = *self % o
    }
}
impl std::iter::Sum for Q {
    fn sum<I: Iterator<Item = Q>>(it: I) -> Q {
        it.fold(Q::R(0, 1), |a, b| a + b)
    }
}
impl<'a> std::iter::Sum<&'a Q> for Q {
    fn sum<I: Iterator<Item = &'a Q>>(it: I) -> Q {
        it.fold(Q::R(0, 1), |a, b| a + *b)
    }
}
impl std::iter::Product for Q {
    fn product<I: Iterator<Item = Q>>(it: I) -> Q {
        it.fold(Q::R(1, 1), |a, b| a * b)
    }
}
impl num::traits::FromPrimitive for Q {
    fn from_i64(n: i64) -> Option<Q> {
        Some(Q::R(n, 1))
    }
    fn from_u64(n: u64) -> Option<Q> {
        if n <= i64::MAX as u64 {
            Some(Q::R(n as i64, 1))
        } else {
            Some(Q::from_f64_exact(n as f64))
        }
    }
    fn from_f64(n: f64) -> Option<Q> {
        Some(Q::from_f64_exact(n))
    }
}
