//! The resource seam: a counting global allocator with per-thread live-byte and peak counters.
//! A run executes on one worker thread, so the thread's counters are the heap attributed to the run.

use std::alloc::{GlobalAlloc, Layout, System};
use std::cell::Cell;

pub struct Counting;

thread_local! {
    static LIVE: Cell<isize> = const { Cell::new(0) };
    static PEAK: Cell<isize> = const { Cell::new(0) };
    static NALLOC: Cell<u64> = const { Cell::new(0) };
}

#[inline]
fn bump(delta: isize) {
    let _ = LIVE.try_with(|l| {
        let v = l.get() + delta;
        l.set(v);
        if delta > 0 {
            let _ = PEAK.try_with(|p| {
                if v > p.get() {
                    p.set(v)
                }
            });
            let _ = NALLOC.try_with(|n| n.set(n.get() + 1));
        }
    });
}

unsafe impl GlobalAlloc for Counting {
    unsafe fn alloc(&self, l: Layout) -> *mut u8 {
        let p = System.alloc(l);
        if !p.is_null() {
            bump(l.size() as isize);
        }
        p
    }
    unsafe fn dealloc(&self, p: *mut u8, l: Layout) {
        System.dealloc(p, l);
        bump(-(l.size() as isize));
    }
    unsafe fn alloc_zeroed(&self, l: Layout) -> *mut u8 {
        let p = System.alloc_zeroed(l);
        if !p.is_null() {
            bump(l.size() as isize);
        }
        p
    }
    unsafe fn realloc(&self, p: *mut u8, l: Layout, new_size: usize) -> *mut u8 {
        let q = System.realloc(p, l, new_size);
        if !q.is_null() {
            bump(new_size as isize - l.size() as isize);
        }
        q
    }
}

pub fn live() -> isize {
    LIVE.with(|l| l.get())
}
pub fn peak() -> isize {
    PEAK.with(|l| l.get())
}
pub fn reset_peak() {
    let v = live();
    PEAK.with(|p| p.set(v));
}
pub fn allocs() -> u64 {
    NALLOC.with(|n| n.get())
}
