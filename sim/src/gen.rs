//! Seeded generation of topologies and parameters (the swarm part of a scenario).

use crate::rng::Rng;
use crate::spec::{Spec, BINARY, K, MAS, UNARY};

/// all wrappers that take a chained view in first position (32 unary + Pfe + Eft)
pub fn wrappers() -> Vec<K> {
    let mut v = UNARY.to_vec();
    v.push(K::Pfe);
    v.push(K::Eft);
    v
}

/// window length: biased to 1..9, otherwise up to n_max
pub fn gen_n(r: &mut Rng, n_max: usize) -> usize {
    // 2% large windows where the caller allows them: round sizes where a narrow counter type would wrap
    if n_max > 64 && r.chance(0.02) {
        let n = match r.below(10) {
            0 => 255,
            1 => 256,
            2 => 257,
            3 => 1000,
            _ => r.range(65, 300),
        };
        return n.min(n_max);
    }
    let n_max = n_max.min(64);
    let x = r.unit();
    let n = if x < 0.6 {
        r.range(1, 9)
    } else if x < 0.9 {
        r.range(10, 32)
    } else {
        r.range(33, 64)
    };
    n.min(n_max).max(1)
}

/// kind for the moving-average slot of Pfe / Eft: the API accepts any view there, so besides the usual
/// averages a third of the picks are other smoothers and a few odd choices (overshooting, clipping, order
/// statistics, normalisers)
pub fn pick_ma_kind(r: &mut Rng) -> K {
    if r.chance(0.65) {
        pick_ma_kind(r)
    } else {
        *r.pick(&[K::SuperSmoother, K::SuperSmoother, K::LaguerreFilter, K::Cumulative, K::Min, K::Max, K::Tanh, K::Gte, K::Lte, K::HLNormalizer, K::Vsct])
    }
}

pub const GAMMAS: &[f64] = &[0.0, 0.1, 0.2, 0.3, 0.4, 0.5, 0.6, 0.7, 0.8, 0.9, 0.95];

/// fill the secondary parameters of node `s` (kind and n already set) within their admissible ranges
pub fn gen_params(r: &mut Rng, s: &mut Spec, positive: bool) {
    match s.k {
        K::EmaAlpha => {
            // weight = alpha/(N+1) in (0,1]
            let hi = s.n as f64 + 1.0;
            s.p = if r.chance(0.3) { *r.pick(&[0.5, 1.0, 2.0]) } else { r.uniform(0.05, hi) };
            if s.p > hi {
                s.p = hi
            }
        }
        K::AlmaCustom => {
            s.p = r.uniform(1.0, 10.0);
            s.q = r.uniform(0.0, 1.0);
        }
        K::Roofing => s.m = if r.chance(0.7) { r.range(1, 6) } else { r.range(7, 16) },
        K::LaguerreFilter => s.p = if r.chance(0.7) { *r.pick(GAMMAS) } else { r.uniform(0.0, 0.99) },
        K::Gte | K::Lte => {
            s.p = if positive { *r.pick(&[0.5, 1.0, 2.5, 10.0]) } else { *r.pick(&[-1.0, -0.25, 0.0, 0.0, 0.5, 1.0, 3.0]) };
        }
        K::Const => s.p = if positive { *r.pick(&[0.5, 1.0, 2.0, 7.0]) } else { *r.pick(&[-2.0, -0.5, 0.0, 1.0, 1.0, 3.0]) },
        _ => {}
    }
}

#[derive(Clone, Copy, PartialEq, Debug)]
pub enum LeafMode {
    Echo,
    /// Probe leaves in view positions (with stall d drawn in 0..=stall_max), Echo in MA positions
    Probe,
    /// Echo leaves, some wrapped in Stall
    StallMix,
}

#[derive(Clone, Debug)]
pub struct TreeCfg {
    pub max_depth: usize,
    pub n_max: usize,
    pub p_binary: f64,
    pub leaf: LeafMode,
    /// probability that a leaf is stalled (Probe{d>0} or Stall over Echo)
    pub p_stall: f64,
    /// probability of a Stall node above an inner (non-leaf) node
    pub p_inner_stall: f64,
    pub kinds: Vec<K>,
    /// largest stall length is stall_base + 2*n_parent + 3
    pub allow_const: bool,
}

impl TreeCfg {
    pub fn full(max_depth: usize, leaf: LeafMode) -> TreeCfg {
        TreeCfg { max_depth, n_max: 1000, p_binary: 0.15, leaf, p_stall: 0.4, p_inner_stall: 0.05, kinds: wrappers(), allow_const: true }
    }
}

fn gen_leaf(r: &mut Rng, cfg: &TreeCfg, parent_n: usize, in_ma: bool, need_pos: bool) -> Spec {
    if cfg.allow_const && !in_ma && r.chance(0.04) {
        let mut c = Spec::leaf(K::Const);
        gen_params(r, &mut c, need_pos);
        return c;
    }
    let d = if r.chance(cfg.p_stall) { r.range(0, 2 * parent_n + 3) } else { 0 };
    match cfg.leaf {
        LeafMode::Echo => Spec::echo(),
        LeafMode::Probe => {
            if in_ma {
                if d > 0 { Spec::stall(d, Spec::echo()) } else { Spec::echo() }
            } else {
                Spec::probe(d)
            }
        }
        LeafMode::StallMix => {
            if d > 0 { Spec::stall(d, Spec::echo()) } else { Spec::echo() }
        }
    }
}

fn positive_kinds() -> &'static [K] {
    &[K::Sma, K::Ema, K::Alma, K::Min, K::Max, K::Cumulative, K::EmaAlpha, K::Gte, K::Lte]
}

/// Generate a tree of depth <= depth_left (counting view nodes, not leaves).
/// `need_pos`: the subtree must be positivity-preserving (it feeds Drawdown / LnReturn / a divisor).
pub fn gen_tree(r: &mut Rng, cfg: &TreeCfg, depth_left: usize, parent_n: usize, in_ma: bool, need_pos: bool) -> Spec {
    if depth_left == 0 {
        return gen_leaf(r, cfg, parent_n, in_ma, need_pos);
    }
    // binary combinator?
    if !in_ma && r.chance(cfg.p_binary) {
        let ops: &[K] = if need_pos { &[K::Add, K::Mul, K::Div] } else { BINARY };
        let op = *r.pick(ops);
        let a = gen_tree(r, cfg, depth_left - 1, parent_n, in_ma, need_pos);
        let b = gen_tree(r, cfg, depth_left - 1, parent_n, in_ma, need_pos || op == K::Div);
        return Spec::bin(op, a, b);
    }
    if need_pos && !in_ma && depth_left >= 1 {
        let x = r.unit();
        if x < 0.15 {
            // a positive floor over anything: the raw stream may then contain zeros and negatives
            let inner = gen_tree(r, cfg, depth_left - 1, parent_n, in_ma, false);
            let mut g = Spec::un(K::Gte, 0, inner);
            g.p = *r.pick(&[0.5, 1.0, 2.5, 10.0]);
            return g;
        }
        if x < 0.25 {
            // non-negative signal plus a positive constant: tolerates exact zeros in the raw stream
            let nk = *r.pick(&[K::Ema, K::Min, K::Max, K::Tanh]);
            let leaf = gen_leaf(r, cfg, parent_n, in_ma, false);
            let leaf = if leaf.k == K::Const { Spec::echo() } else { leaf };
            let a = Spec::un(nk, gen_n(r, cfg.n_max), leaf);
            let c = Spec::constant(*r.pick(&[0.5, 1.0, 2.0, 7.0]));
            return if r.chance(0.5) { Spec::bin(K::Add, a, c) } else { Spec::bin(K::Add, c, a) };
        }
    }
    let k = if need_pos {
        *r.pick(positive_kinds())
    } else if in_ma {
        pick_ma_kind(r)
    } else {
        *r.pick(&cfg.kinds)
    };
    let node = gen_node(r, cfg, k, depth_left, in_ma, need_pos);
    if r.chance(cfg.p_inner_stall) && cfg.leaf != LeafMode::Echo {
        let d = r.range(1, 2 * parent_n + 3);
        return Spec::stall(d, node);
    }
    node
}

/// a node of kind k with random parameters and a generated child subtree
pub fn gen_node(r: &mut Rng, cfg: &TreeCfg, k: K, depth_left: usize, in_ma: bool, need_pos: bool) -> Spec {
    // NET is quadratic in its window: keep it at 64
    let n = if k.has_n() { gen_n(r, if k == K::Net { cfg.n_max.min(64) } else { cfg.n_max }) } else { 0 };
    let child_pos = need_pos || matches!(k, K::Drawdown | K::LnReturn);
    // continue downwards with some probability, otherwise a leaf
    let d = if depth_left > 1 && r.chance(0.75) { depth_left - 1 } else { 0 };
    let inner = gen_tree(r, cfg, d, n.max(1), in_ma, child_pos);
    let mut s = match k {
        K::Pfe | K::Eft => {
            let mk = pick_ma_kind(r);
            let mn = gen_n(r, cfg.n_max.min(24));
            let mut ma = Spec::un(mk, mn, gen_leaf(r, cfg, mn, true, false));
            gen_params(r, &mut ma, false);
            Spec::with_ma(k, n, inner, ma)
        }
        _ => Spec::un(k, n, inner),
    };
    gen_params(r, &mut s, need_pos);
    if need_pos && matches!(s.k, K::Gte | K::Lte) && s.p <= 0.0 {
        s.p = 1.0;
    }
    s
}

/// wrapper `k` with window `n` (and default/random secondaries) around `inner`; Pfe/Eft get MA `ma`
pub fn wrap(r: &mut Rng, k: K, n: usize, inner: Spec, ma: Option<Spec>) -> Spec {
    let mut s = match k {
        K::Pfe | K::Eft => {
            let ma = ma.unwrap_or_else(|| Spec::un(K::Ema, 3, Spec::echo()));
            Spec::with_ma(k, n, inner, ma)
        }
        _ => Spec::un(k, if k.has_n() { n } else { 0 }, inner),
    };
    gen_params(r, &mut s, false);
    s
}

/// smallest window at which the kind is documented / designed to work (DESIGN.md minimum-window table)
pub fn min_window(k: K) -> usize {
    match k {
        K::CyberCycle | K::Pfe => 3,
        K::Roofing | K::Eft | K::LaguerreRsi | K::ReFlex => 2,
        _ => 1,
    }
}
