//! Serialisable description of a view tree (the "topology" of one replica).

use crate::rng::Fnv;
use serde_json::{json, Value};

macro_rules! kinds {
    ($($name:ident),* $(,)?) => {
        #[derive(Clone, Copy, PartialEq, Eq, Hash, Debug, PartialOrd, Ord)]
        pub enum K { $($name),* }
        impl K {
            pub const ALL: &'static [K] = &[$(K::$name),*];
            pub fn name(self) -> &'static str { match self { $(K::$name => stringify!($name)),* } }
            pub fn parse(s: &str) -> Option<K> { match s { $(stringify!($name) => Some(K::$name),)* _ => None } }
        }
    };
}

kinds!(
    // leaves
    Echo, Const, Probe, Replay,
    // harness node: swallows the first `m` outputs of its child
    Stall,
    // pure functions
    Tanh, Gte, Lte,
    // rolling
    Drawdown, LnReturn, WelfordRolling,
    // sliding windows
    Sma, Ema, EmaAlpha, Alma, AlmaCustom, Cumulative, Min, Max, WelfordOnline, HLNormalizer, Roc,
    BinaryEntropy, Vst, Vsct, Rsi, MyRsi, CoG, Cti, Net, SuperSmoother, Roofing, LaguerreFilter,
    LaguerreRsi, CyberCycle, TrendFlex, ReFlex,
    // accessor adapters (harness): expose WelfordOnline::mean()/variance() as a view output
    WoMean, WoVar,
    // binary combinators
    Add, Sub, Mul, Div,
    // view + moving average
    Pfe, Eft,
);

/// The 32 real unary wrappers of the public catalogue (each takes one chained view).
pub const UNARY: &[K] = &[
    K::Tanh, K::Gte, K::Lte, K::Drawdown, K::LnReturn, K::WelfordRolling, K::Sma, K::Ema, K::EmaAlpha,
    K::Alma, K::AlmaCustom, K::Cumulative, K::Min, K::Max, K::WelfordOnline, K::HLNormalizer, K::Roc,
    K::BinaryEntropy, K::Vst, K::Vsct, K::Rsi, K::MyRsi, K::CoG, K::Cti, K::Net, K::SuperSmoother,
    K::Roofing, K::LaguerreFilter, K::LaguerreRsi, K::CyberCycle, K::TrendFlex, K::ReFlex,
];
pub const BINARY: &[K] = &[K::Add, K::Sub, K::Mul, K::Div];
pub const WITH_MA: &[K] = &[K::Pfe, K::Eft];
/// Views that can serve as the moving average of Pfe / Eft.
pub const MAS: &[K] = &[K::Sma, K::Ema, K::Alma, K::EmaAlpha, K::AlmaCustom];

impl K {
    pub fn arity(self) -> usize {
        match self {
            K::Echo | K::Const | K::Probe | K::Replay => 0,
            K::Add | K::Sub | K::Mul | K::Div | K::Pfe | K::Eft => 2,
            _ => 1,
        }
    }
    /// does the kind take a window length `n`?
    pub fn has_n(self) -> bool {
        !matches!(
            self,
            K::Echo | K::Const | K::Probe | K::Replay | K::Stall | K::Tanh | K::Gte | K::Lte | K::Drawdown
                | K::LnReturn | K::WelfordRolling | K::LaguerreFilter | K::Add | K::Sub | K::Mul | K::Div
        )
    }
    pub fn is_harness(self) -> bool {
        matches!(self, K::Probe | K::Replay | K::Stall | K::WoMean | K::WoVar)
    }
}

/// sign class of a raw feed: the domain analysis asks under which class every Drawdown / LnReturn input
/// and every divisor stays positive
#[derive(Clone, Copy, PartialEq, Eq, Debug, PartialOrd, Ord)]
pub enum Sign {
    Any,
    NonNeg,
    Positive,
}

#[derive(Clone, Debug, PartialEq)]
pub struct Spec {
    pub k: K,
    /// window length
    pub n: usize,
    /// second integer: Roofing super-smoother length, Stall/Probe stall length, Replay script index
    pub m: usize,
    /// first float: clip, constant, gamma, alpha, sigma
    pub p: f64,
    /// second float: Alma offset
    pub q: f64,
    pub kids: Vec<Spec>,
}

impl Spec {
    pub fn leaf(k: K) -> Spec {
        Spec { k, n: 0, m: 0, p: 0.0, q: 0.0, kids: vec![] }
    }
    pub fn echo() -> Spec {
        Spec::leaf(K::Echo)
    }
    pub fn constant(c: f64) -> Spec {
        Spec { p: c, ..Spec::leaf(K::Const) }
    }
    pub fn probe(d: usize) -> Spec {
        Spec { m: d, ..Spec::leaf(K::Probe) }
    }
    pub fn stall(d: usize, inner: Spec) -> Spec {
        Spec { k: K::Stall, n: 0, m: d, p: 0.0, q: 0.0, kids: vec![inner] }
    }
    pub fn un(k: K, n: usize, inner: Spec) -> Spec {
        let mut s = Spec { k, n, m: 0, p: 0.0, q: 0.0, kids: vec![inner] };
        s.default_params();
        s
    }
    pub fn bin(k: K, a: Spec, b: Spec) -> Spec {
        Spec { k, n: 0, m: 0, p: 0.0, q: 0.0, kids: vec![a, b] }
    }
    pub fn with_ma(k: K, n: usize, view: Spec, ma: Spec) -> Spec {
        Spec { k, n, m: 0, p: 0.0, q: 0.0, kids: vec![view, ma] }
    }
    /// sensible secondary parameters for kinds that need them
    pub fn default_params(&mut self) {
        match self.k {
            K::EmaAlpha => self.p = 1.0,
            K::AlmaCustom => {
                self.p = 4.0;
                self.q = 0.5
            }
            K::Roofing => self.m = 3,
            K::LaguerreFilter => self.p = 0.5,
            K::Gte => self.p = 0.0,
            K::Lte => self.p = 0.0,
            _ => {}
        }
    }

    pub fn to_json(&self) -> Value {
        let mut o = serde_json::Map::new();
        o.insert("k".into(), json!(self.k.name()));
        if self.k.has_n() {
            o.insert("n".into(), json!(self.n));
        }
        if matches!(self.k, K::Roofing | K::Stall | K::Probe | K::Replay) {
            o.insert("m".into(), json!(self.m));
        }
        if matches!(self.k, K::Const | K::Gte | K::Lte | K::EmaAlpha | K::AlmaCustom | K::LaguerreFilter) {
            o.insert("p".into(), json!(self.p));
            o.insert("p_bits".into(), json!(format!("{:016x}", self.p.to_bits())));
        }
        if matches!(self.k, K::AlmaCustom) {
            o.insert("q".into(), json!(self.q));
            o.insert("q_bits".into(), json!(format!("{:016x}", self.q.to_bits())));
        }
        if !self.kids.is_empty() {
            o.insert("kids".into(), Value::Array(self.kids.iter().map(|k| k.to_json()).collect()));
        }
        Value::Object(o)
    }
    pub fn from_json(v: &Value) -> Result<Spec, String> {
        let k = K::parse(v["k"].as_str().ok_or("spec: k missing")?).ok_or("spec: unknown kind")?;
        let f = |bits: &str, plain: &str| -> f64 {
            if let Some(s) = v[bits].as_str() {
                if let Ok(b) = u64::from_str_radix(s, 16) {
                    return f64::from_bits(b);
                }
            }
            v[plain].as_f64().unwrap_or(0.0)
        };
        let mut kids = vec![];
        if let Some(a) = v["kids"].as_array() {
            for x in a {
                kids.push(Spec::from_json(x)?);
            }
        }
        if kids.len() != k.arity() {
            return Err(format!("spec: {} expects {} kids, has {}", k.name(), k.arity(), kids.len()));
        }
        Ok(Spec {
            k,
            n: v["n"].as_u64().unwrap_or(0) as usize,
            m: v["m"].as_u64().unwrap_or(0) as usize,
            p: f("p_bits", "p"),
            q: f("q_bits", "q"),
            kids,
        })
    }

    /// compact human-readable form, e.g. `Sma(5,Ema(3,Stall(2,Echo)))`
    pub fn show(&self) -> String {
        let mut s = String::new();
        self.show_into(&mut s);
        s
    }
    fn show_into(&self, s: &mut String) {
        s.push_str(self.k.name());
        let mut parts: Vec<String> = vec![];
        if self.k.has_n() {
            parts.push(format!("{}", self.n));
        }
        if matches!(self.k, K::Roofing | K::Stall) || (self.k == K::Probe && self.m > 0) {
            parts.push(format!("{}", self.m));
        }
        if matches!(self.k, K::Const | K::Gte | K::Lte | K::EmaAlpha | K::AlmaCustom | K::LaguerreFilter) {
            parts.push(format!("{}", self.p));
        }
        if self.k == K::AlmaCustom {
            parts.push(format!("{}", self.q));
        }
        for k in &self.kids {
            parts.push(k.show());
        }
        if !parts.is_empty() {
            s.push('(');
            s.push_str(&parts.join(","));
            s.push(')');
        }
    }

    pub fn hash_into(&self, h: &mut Fnv) {
        h.u64(self.k as u64 + 1000);
        h.u64(self.n as u64);
        h.u64(self.m as u64);
        h.u64(self.p.to_bits());
        h.u64(self.q.to_bits());
        for k in &self.kids {
            k.hash_into(h);
        }
        h.u64(0xfeed);
    }
    pub fn hash(&self) -> u64 {
        let mut h = Fnv::new();
        self.hash_into(&mut h);
        h.0
    }

    pub fn walk<'a>(&'a self, f: &mut dyn FnMut(&'a Spec)) {
        f(self);
        for k in &self.kids {
            k.walk(f);
        }
    }
    pub fn contains(&self, k: K) -> bool {
        let mut r = false;
        self.walk(&mut |s| r |= s.k == k);
        r
    }
    pub fn any(&self, pred: &dyn Fn(&Spec) -> bool) -> bool {
        let mut r = false;
        self.walk(&mut |s| r |= pred(s));
        r
    }
    pub fn depth(&self) -> usize {
        1 + self.kids.iter().map(|k| k.depth()).max().unwrap_or(0)
    }
    pub fn size(&self) -> usize {
        1 + self.kids.iter().map(|k| k.size()).sum::<usize>()
    }
    /// `Add` does not implement Clone, so a tree containing it cannot be forked.
    pub fn cloneable(&self) -> bool {
        !self.contains(K::Add)
    }
    /// sum of all window lengths in the tree (used for warm-up horizons)
    pub fn window_sum(&self) -> usize {
        let mut t = 0;
        self.walk(&mut |s| {
            t += s.n + s.m;
        });
        t
    }
    /// kinds occurring in the tree, sorted, as names
    pub fn kinds(&self) -> Vec<&'static str> {
        let mut v: Vec<K> = vec![];
        self.walk(&mut |s| {
            if !v.contains(&s.k) {
                v.push(s.k)
            }
        });
        v.sort();
        v.into_iter().map(|k| k.name()).collect()
    }

    /// Conservative: is every output of this tree > 0 whenever every raw input is > 0?
    pub fn positive(&self) -> bool {
        self.pos(Sign::Positive)
    }
    /// Conservative: every output > 0 when the raw inputs are of sign class `f`?
    pub fn pos(&self, f: Sign) -> bool {
        match self.k {
            K::Echo | K::Probe => f == Sign::Positive,
            K::Const => self.p > 0.0,
            K::Stall => self.kids[0].pos(f),
            // AlmaCustom is deliberately absent: with a small offset / large sigma the steady-state weight is
            // ~1e-16 of the start-up weights, so in f64 its subtractive weight sum is cancellation residue and
            // the output of a positive stream need not be positive (numerical accuracy: C16's subject)
            K::Sma | K::Ema | K::Alma | K::Min | K::Max | K::Cumulative => self.kids[0].pos(f),
            K::EmaAlpha => self.kids[0].pos(f) && self.p > 0.0 && self.p <= (self.n as f64 + 1.0),
            K::Gte => self.p > 0.0 || self.kids[0].pos(f),
            K::Lte => self.p > 0.0 && self.kids[0].pos(f),
            K::Add => (self.kids[0].pos(f) && self.kids[1].nonneg(f)) || (self.kids[0].nonneg(f) && self.kids[1].pos(f)),
            K::Mul | K::Div => self.kids[0].pos(f) && self.kids[1].pos(f),
            _ => false,
        }
    }
    /// Conservative: every output >= 0 (exactly, also in f64: no subtractive running sums) for inputs of class `f`?
    pub fn nonneg(&self, f: Sign) -> bool {
        if self.pos(f) {
            return true;
        }
        match self.k {
            K::Echo | K::Probe => f != Sign::Any,
            K::Const => self.p >= 0.0,
            K::Stall => self.kids[0].nonneg(f),
            K::Ema | K::Min | K::Max | K::Tanh => self.kids[0].nonneg(f),
            K::EmaAlpha => self.kids[0].nonneg(f) && self.p > 0.0 && self.p <= (self.n as f64 + 1.0),
            K::Gte => self.p >= 0.0 || self.kids[0].nonneg(f),
            K::Lte => self.p >= 0.0 && self.kids[0].nonneg(f),
            K::Add | K::Mul => self.kids[0].nonneg(f) && self.kids[1].nonneg(f),
            K::Div => self.kids[0].nonneg(f) && self.kids[1].pos(f),
            K::BinaryEntropy | K::Drawdown | K::WelfordRolling | K::WelfordOnline => true,
            _ => false,
        }
    }
    /// Does the tree have positions with a domain condition (Drawdown / LnReturn input, divisor)?
    pub fn needs_positive_feed(&self) -> bool {
        self.any(&|s| matches!(s.k, K::Drawdown | K::LnReturn | K::Div))
    }
    /// Are the domain conditions of every node satisfied for raw inputs of sign class `f`?
    pub fn domain_ok(&self, f: Sign) -> bool {
        let mut ok = true;
        self.walk(&mut |s| match s.k {
            K::Drawdown | K::LnReturn => ok &= s.kids[0].pos(f),
            K::Div => ok &= s.kids[1].pos(f),
            _ => {}
        });
        ok
    }
    pub fn domain_ok_positive_feed(&self) -> bool {
        self.domain_ok(Sign::Positive)
    }
    /// the weakest class of raw inputs under which every node stays inside its domain
    pub fn feed_sign(&self) -> Option<Sign> {
        if self.domain_ok(Sign::Any) {
            Some(Sign::Any)
        } else if self.domain_ok(Sign::NonNeg) {
            Some(Sign::NonNeg)
        } else if self.domain_ok(Sign::Positive) {
            Some(Sign::Positive)
        } else {
            None
        }
    }

    /// replace every leaf by `leaf(i)` where i counts leaves in DFS order of the `view` positions;
    /// leaves inside a moving-average position (second child of Pfe/Eft) get `ma_leaf`.
    pub fn map_leaves(&self, view_leaf: &mut dyn FnMut() -> Spec, ma_leaf: &mut dyn FnMut() -> Spec, in_ma: bool) -> Spec {
        if self.k.arity() == 0 {
            if self.k == K::Const {
                return self.clone();
            }
            return if in_ma { ma_leaf() } else { view_leaf() };
        }
        let mut out = self.clone();
        for (i, kid) in self.kids.iter().enumerate() {
            let ma = in_ma || (matches!(self.k, K::Pfe | K::Eft) && i == 1);
            out.kids[i] = kid.map_leaves(view_leaf, ma_leaf, ma);
        }
        out
    }
}
