//! Batch runner: seeded search over scenarios on all cores, deterministic merging, minimisation,
//! replay files, known-finding matching and the evidence file.

use crate::minimize::minimise;
use crate::props::{Prop, Stats, Tier, Violation};
use crate::rng::{run_seed, splitmix, Rng};
use crate::scenario::Scenario;
use serde_json::{json, Value};
use std::collections::{BTreeMap, HashSet};
use std::sync::atomic::{AtomicU64, Ordering};
use std::sync::Mutex;
use std::time::Instant;

pub const DEFAULT_SEED: u64 = 20261002;

pub fn profile_name() -> &'static str {
    if cfg!(debug_assertions) {
        "dbg (debug assertions + overflow checks on)"
    } else {
        "release (debug assertions + overflow checks off)"
    }
}
pub fn profile_short() -> &'static str {
    if cfg!(debug_assertions) {
        "dbg"
    } else {
        "release"
    }
}

/// Every scenario executes on a fresh OS thread, so that thread-local state inside the library (or the
/// harness) cannot leak from one run into the next: a run is a function of its scenario alone, which is
/// what makes a replay in a fresh process agree with the run that found the violation.
pub fn exec_hermetic(prop: &dyn Prop, sc: &Scenario) -> crate::props::RunOut {
    std::thread::scope(|s| match s.spawn(|| {
        crate::engine::arm_deadline();
        prop.execute(sc)
    }).join() {
        Ok(o) => o,
        Err(_) => {
            eprintln!("HARNESS ERROR: scenario thread panicked");
            std::process::exit(2);
        }
    })
}

pub struct Opts {
    pub prop: String,
    pub tier: Tier,
    pub seed: u64,
    pub workers: usize,
    pub runs_override: Option<u64>,
    pub evidence: Option<String>,
    pub part_out: Option<String>,
    pub merge_parts: Vec<String>,
    pub replays_dir: String,
    pub known: Option<String>,
    pub quiet: bool,
    pub only_hash: bool,
    pub dump_hashes: Option<String>,
    pub from: u64,
}

#[derive(Default)]
struct Acc {
    stats: Stats,
    topo: HashSet<u64>,
    shapes: HashSet<u64>,
    nontrivial_shapes: HashSet<u64>,
    viol: Vec<(u64, Violation)>,
    invalid: u64,
    hashes: Vec<(u64, u64, String)>,
    main_hists: Vec<(u64, u64)>,
    batch_hash: u64,
    evals: u64,
}

pub struct Known {
    pub entries: Vec<Value>,
}
impl Known {
    pub fn load(path: &Option<String>) -> Known {
        let mut entries = vec![];
        if let Some(p) = path {
            if let Ok(s) = std::fs::read_to_string(p) {
                match serde_json::from_str::<Value>(&s) {
                    Ok(v) => {
                        if let Some(a) = v["findings"].as_array() {
                            entries = a.clone();
                        }
                    }
                    Err(e) => {
                        eprintln!("HARNESS ERROR: known findings file {} unreadable: {}", p, e);
                        std::process::exit(2);
                    }
                }
            }
        }
        Known { entries }
    }
    /// does a listed finding cover this (minimised) violation?
    pub fn matches(&self, prop: &str, v: &Violation, sc: &Scenario) -> Option<String> {
        for e in &self.entries {
            if e["property"].as_str() != Some(prop) {
                continue;
            }
            if let Some(c) = e["class"].as_str() {
                if c != v.class {
                    continue;
                }
            }
            if let Some(k) = e["key_prefix"].as_str() {
                if !v.key.starts_with(k) {
                    continue;
                }
            }
            if let Some(m) = e["mode"].as_str() {
                if m != sc.mode {
                    continue;
                }
            }
            if let Some(kind) = e["tree_kind"].as_str() {
                let n_min = e["n_min"].as_u64().unwrap_or(0) as usize;
                let n_max = e["n_max"].as_u64().unwrap_or(u64::MAX) as usize;
                let hit = sc.trees.iter().any(|t| t.any(&|s| s.k.name() == kind && s.n >= n_min && s.n <= n_max));
                if !hit {
                    continue;
                }
            }
            return Some(e["what"].as_str().unwrap_or("(no description)").to_string());
        }
        None
    }
}

fn exe_replay(path: &str) -> Option<(String, String, usize)> {
    let exe = std::env::current_exe().ok()?;
    let out = std::process::Command::new(exe).arg("replay").arg(path).output().ok()?;
    let s = String::from_utf8_lossy(&out.stdout);
    for line in s.lines() {
        if let Some(rest) = line.strip_prefix("REPLAY-RESULT ") {
            let mut class = String::new();
            let mut key = String::new();
            let mut step = 0usize;
            for kv in rest.split('\t') {
                if let Some(x) = kv.strip_prefix("class=") {
                    class = x.to_string()
                }
                if let Some(x) = kv.strip_prefix("key=") {
                    key = x.to_string()
                }
                if let Some(x) = kv.strip_prefix("step=") {
                    step = x.parse().unwrap_or(0)
                }
            }
            return Some((class, key, step));
        }
    }
    None
}

pub fn replay_file(path: &str) -> i32 {
    let s = match std::fs::read_to_string(path) {
        Ok(s) => s,
        Err(e) => {
            eprintln!("HARNESS ERROR: cannot read {}: {}", path, e);
            return 2;
        }
    };
    let v: Value = match serde_json::from_str(&s) {
        Ok(v) => v,
        Err(e) => {
            eprintln!("HARNESS ERROR: bad json {}: {}", path, e);
            return 2;
        }
    };
    let sc = match Scenario::from_json(&v["scenario"]) {
        Ok(s) => s,
        Err(e) => {
            eprintln!("HARNESS ERROR: bad scenario: {}", e);
            return 2;
        }
    };
    let prop = match crate::props::find(&sc.prop) {
        Some(p) => p,
        None => {
            eprintln!("HARNESS ERROR: unknown property {}", sc.prop);
            return 2;
        }
    };
    if let Some(p) = v["profile"].as_str() {
        if p != profile_short() {
            eprintln!("note: replay was recorded under profile '{}', this binary is '{}'", p, profile_short());
        }
    }
    let out = exec_hermetic(prop.as_ref(), &sc);
    if let Some(why) = out.invalid {
        println!("REPLAY-RESULT class=invalid\tkey={}\tstep=0", why);
        return 2;
    }
    match out.violation {
        Some(v) => {
            println!("REPLAY-RESULT class={}\tkey={}\tstep={}", v.class, v.key, v.step);
            println!("violation reproduced: property={} class={} step={} :: {}", sc.prop, v.class, v.step, v.detail);
            1
        }
        None => {
            println!("REPLAY-RESULT class=none\tkey=\tstep=0");
            println!("no violation on this tree (hist {:016x})", out.hist);
            0
        }
    }
}

pub fn run(prop: &dyn Prop, o: &Opts) -> i32 {
    let t0 = Instant::now();
    let total = o.runs_override.unwrap_or_else(|| prop.runs(o.tier));
    let next = AtomicU64::new(o.from);
    let end = o.from + total;
    let accs: Mutex<Vec<Acc>> = Mutex::new(vec![]);
    let workers = o.workers.max(1);
    let batch_budget_s: u64 = std::env::var("VERIF_BATCH_BUDGET_S").ok().and_then(|s| s.parse().ok()).unwrap_or(if o.tier == Tier::Quick { 900 } else { 4 * 3600 });
    let truncated = std::sync::atomic::AtomicBool::new(false);
    let dump_hashes = o.dump_hashes.is_some();
    let hermetic = prop.hermetic();
    let slow_ms: u64 = std::env::var("VERIF_SLOW_MS").ok().and_then(|s| s.parse().ok()).unwrap_or(0);
    std::thread::scope(|s| {
        for _ in 0..workers {
            s.spawn(|| {
                let mut a = Acc::default();
                loop {
                    // batch wall-clock guard: only ever reached when a changed library makes runs pathologically slow
                    if t0.elapsed().as_secs() > batch_budget_s {
                        truncated.store(true, Ordering::Relaxed);
                        break;
                    }
                    let i = next.fetch_add(1, Ordering::Relaxed);
                    if i >= end {
                        break;
                    }
                    let mut rng = Rng::new(run_seed(o.seed, prop.id(), i));
                    let sc = prop.generate(i, &mut rng, o.tier);
                    let t_run = Instant::now();
                    let mut out = if hermetic {
                        exec_hermetic(prop, &sc)
                    } else {
                        crate::engine::arm_deadline();
                        prop.execute(&sc)
                    };
                    if !hermetic {
                        if let Some(v) = &out.violation {
                            // confirm on a fresh thread: a violation that needs state left behind by earlier runs on
                            // this worker thread cannot be replayed from its scenario and is hidden-state evidence
                            // (C17's subject), not a finding of this property
                            let again = exec_hermetic(prop, &sc);
                            let same = again.violation.as_ref().map(|w| w.sig() == v.sig()).unwrap_or(false);
                            if !same {
                                out.violation = None;
                                out.stats.hit("skip.violation_not_reproducible_on_fresh_thread");
                            }
                        }
                    }
                    if slow_ms > 0 && t_run.elapsed().as_millis() as u64 >= slow_ms {
                        eprintln!("SLOW run {} {:?}ms mode={} trees={:?} feeds={:?}", i, t_run.elapsed().as_millis(), sc.mode, sc.trees.iter().map(|t| t.show()).collect::<Vec<_>>(), sc.feeds.iter().map(|f| f.len()).collect::<Vec<_>>());
                    }
                    a.evals += 1;
                    if out.invalid.is_some() {
                        a.invalid += 1;
                        continue;
                    }
                    let mut x = i ^ out.hist.rotate_left(23);
                    a.batch_hash = a.batch_hash.wrapping_add(splitmix(&mut x));
                    if dump_hashes {
                        a.hashes.push((i, out.hist, out.violation.as_ref().map(|v| v.sig()).unwrap_or_default()));
                    }
                    if hermetic && i < crate::props::MAIN_HISTS_MAX {
                        a.main_hists.push((i, out.hist));
                    }
                    if o.only_hash {
                        continue;
                    }
                    a.stats.merge(&out.stats);
                    for (k, v) in &sc.gen_stats {
                        a.stats.add(&format!("fault.{}", k), *v);
                    }
                    a.topo.insert(sc.topo_hash());
                    let sh = sc.shape_hash();
                    a.shapes.insert(sh);
                    if out.nontrivial {
                        a.nontrivial_shapes.insert(sh);
                    }
                    if let Some(v) = out.violation {
                        a.viol.push((i, v));
                    }
                }
                accs.lock().unwrap().push(a);
            });
        }
    });
    let mut m = Acc::default();
    for a in accs.into_inner().unwrap() {
        m.stats.merge(&a.stats);
        m.topo.extend(a.topo);
        m.shapes.extend(a.shapes);
        m.nontrivial_shapes.extend(a.nontrivial_shapes);
        m.viol.extend(a.viol);
        m.invalid += a.invalid;
        m.hashes.extend(a.hashes);
        m.main_hists.extend(a.main_hists);
        m.batch_hash = m.batch_hash.wrapping_add(a.batch_hash);
        m.evals += a.evals;
    }
    if let Some(path) = &o.dump_hashes {
        m.hashes.sort();
        let mut txt = String::new();
        for (i, h, v) in &m.hashes {
            txt.push_str(&format!("{} {:016x} {}\n", i, h, v));
        }
        if std::fs::write(path, txt).is_err() {
            eprintln!("HARNESS ERROR: cannot write {}", path);
            return 2;
        }
    }
    let mut extra: Vec<(Scenario, Violation)> = vec![];
    if !o.only_hash {
        m.main_hists.sort();
        *crate::props::MAIN_HISTS.lock().unwrap() = Some(std::mem::take(&mut m.main_hists));
        for sc in prop.post_batch(o.seed, total, o.tier) {
            let out = exec_hermetic(prop, &sc);
            m.evals += 1;
            m.stats.merge(&out.stats);
            if out.nontrivial {
                m.nontrivial_shapes.insert(sc.shape_hash());
            }
            m.shapes.insert(sc.shape_hash());
            if let Some(v) = out.violation {
                extra.push((sc, v));
            }
        }
    }
    if o.only_hash {
        println!("BATCH-HASH {} {} seed={} runs={} hash={:016x}", prop.id(), o.tier.name(), o.seed, total, m.batch_hash);
        return 0;
    }
    m.viol.sort_by_key(|(i, _)| *i);
    let search_s = t0.elapsed().as_secs_f64();

    // group by signature; minimise the first few members of each group
    let known = Known::load(&o.known);
    let mut groups: BTreeMap<String, Vec<(u64, Violation)>> = BTreeMap::new();
    for (i, v) in &m.viol {
        groups.entry(v.sig()).or_default().push((*i, v.clone()));
    }
    let mut reported: Vec<Value> = vec![];
    let mut known_hits: BTreeMap<String, u64> = BTreeMap::new();
    let mut unlisted = 0u64;
    let mut not_reproducible = 0u64;
    let mut lines: Vec<String> = vec![];
    let _ = std::fs::create_dir_all(&o.replays_dir);
    let per_group = 3usize;
    let mut group_list: Vec<(&String, &Vec<(u64, Violation)>)> = groups.iter().collect();
    group_list.sort_by_key(|(_, v)| v[0].0);
    // work items in report order: three members of each of the first groups, one of each later group. They are
    // minimised in parallel (every execution of the minimiser runs on a fresh thread of its own and the replay in a
    // fresh process, so the items are independent); the outcomes are then reported strictly in item order, so the
    // output does not depend on the number of workers. The effort per item tapers with the group index: a
    // changed library that fails in dozens of ways must still be reported within minutes.
    struct Item<'a> {
        sig: &'a String,
        i: u64,
        v: &'a Violation,
        members: usize,
        effort: usize,
    }
    struct Done {
        sc: Scenario,
        mini: crate::minimize::Minimised,
        fname: String,
        written: bool,
        replayed: Option<(String, String, usize)>,
    }
    let mut items: Vec<Item> = vec![];
    for (gi, (sig, members)) in group_list.iter().enumerate() {
        for (i, v) in members.iter().take(if gi < 12 { per_group } else { 1 }) {
            items.push(Item { sig, i: *i, v, members: members.len(), effort: if gi < 12 { 1 } else if gi < 40 { 4 } else { 16 } });
        }
    }
    let next = std::sync::atomic::AtomicUsize::new(0);
    let done: Vec<Mutex<Option<Done>>> = (0..items.len()).map(|_| Mutex::new(None)).collect();
    let tier = o.tier;
    let seed = o.seed;
    let replays_dir = o.replays_dir.clone();
    std::thread::scope(|scope| {
        for _ in 0..o.workers.max(1).min(items.len().max(1)) {
            scope.spawn(|| loop {
                let k = next.fetch_add(1, Ordering::Relaxed);
                if k >= items.len() {
                    break;
                }
                let it = &items[k];
                let mut rng = Rng::new(run_seed(seed, prop.id(), it.i));
                let sc = prop.generate(it.i, &mut rng, tier);
                // deterministic effort budget: fewer re-executions for expensive scenarios
                let cost: usize = sc.events.len() + sc.feeds.iter().map(|f| f.len()).sum::<usize>() * sc.trees.len().max(1);
                let budget = (30_000_000usize / cost.max(1) / it.effort).clamp(60, 3000);
                let mini = minimise(prop, &sc, it.v, budget);
                let fname = format!("{}/{}-{}-{}-{}.json", replays_dir, prop.id(), seed, it.i, profile_short());
                let file = json!({
                    "format": "sliding_features-sim-replay-1",
                    "property": prop.id(),
                    "profile": profile_short(),
                    "seed": seed,
                    "run_index": it.i,
                    "tier": tier.name(),
                    "violation": {"class": mini.violation.class, "key": mini.violation.key, "step": mini.violation.step, "detail": mini.violation.detail},
                    "original": {"events": sc.events.len(), "feed_lens": sc.feeds.iter().map(|f| f.len()).collect::<Vec<_>>(), "trees": sc.trees.iter().map(|t| t.show()).collect::<Vec<_>>(), "first_seen": it.v.detail},
                    "minimiser_executions": mini.executions,
                    "scenario": mini.scenario.to_json(),
                });
                let written = std::fs::write(&fname, serde_json::to_string_pretty(&file).unwrap()).is_ok();
                // the minimised file must reproduce the same class at the same step in a fresh process
                let replayed = if written { exe_replay(&fname) } else { None };
                *done[k].lock().unwrap() = Some(Done { sc, mini, fname, written, replayed });
            });
        }
    });
    for (k, it) in items.iter().enumerate() {
        {
            let (sig, i, members) = (it.sig, it.i, it.members);
            let Done { sc: _sc, mini, fname, written, replayed } = done[k].lock().unwrap().take().expect("every item was processed");
            if !written {
                eprintln!("HARNESS ERROR: cannot write replay {}", fname);
                return 2;
            }
            match replayed {
                Some((c, k, st)) if c == mini.violation.class && k == mini.violation.key && st == mini.violation.step => {}
                other => {
                    // the scenario is explicit and the harness is deterministic (selftest), so a different outcome
                    // in another process means the library's result depends on process-wide state
                    if prop.id() == "C17" {
                        unlisted += 1;
                        lines.push(format!("VIOLATION property=C17 replay={}", fname));
                        lines.push(format!("  seed={} run={} class=depends_on_process_state :: the scenario gave {} here but {:?} when replayed in a fresh process: hidden process-wide state", o.seed, i, sig, other));
                        reported.push(json!({"known": false, "run": i, "replay": fname, "what": "outcome differs between processes"}));
                    } else {
                        let _ = std::fs::remove_file(&fname);
                        not_reproducible += 1;
                        eprintln!("WARN: {} run {}: violation {} did not reproduce in a fresh process ({:?}); hidden process-wide state is C17's subject, not counted here", prop.id(), i, sig, other);
                    }
                    continue;
                }
            }
            let what = format!(
                "class={} key={} trees={:?} :: {}",
                mini.violation.class,
                mini.violation.key,
                mini.scenario.trees.iter().map(|t| t.show()).collect::<Vec<_>>(),
                mini.violation.detail
            );
            if let Some(desc) = known.matches(prop.id(), &mini.violation, &mini.scenario) {
                *known_hits.entry(desc.clone()).or_default() += 1;
                let _ = std::fs::remove_file(&fname);
                reported.push(json!({"known": true, "finding": desc, "run": i, "what": what}));
            } else {
                unlisted += 1;
                lines.push(format!("VIOLATION property={} replay={}", prop.id(), fname));
                lines.push(format!("  seed={} run={} {} (group of {} runs)", o.seed, i, what, members));
                reported.push(json!({"known": false, "run": i, "replay": fname, "what": what, "group_size": members}));
            }
        }
    }
    for (xi, (sc, v)) in extra.iter().enumerate() {
        let fname = format!("{}/{}-{}-post{}-{}.json", o.replays_dir, prop.id(), o.seed, xi, profile_short());
        let file = json!({
            "format": "sliding_features-sim-replay-1", "property": prop.id(), "profile": profile_short(), "seed": o.seed, "run_index": "post-batch",
            "tier": o.tier.name(), "violation": {"class": v.class, "key": v.key, "step": v.step, "detail": v.detail}, "scenario": sc.to_json(),
        });
        if std::fs::write(&fname, serde_json::to_string_pretty(&file).unwrap()).is_err() {
            eprintln!("HARNESS ERROR: cannot write replay {}", fname);
            return 2;
        }
        unlisted += 1;
        lines.push(format!("VIOLATION property={} replay={}", prop.id(), fname));
        lines.push(format!("  seed={} {} :: {}", o.seed, v.class, v.detail));
        reported.push(json!({"known": false, "run": "post-batch", "replay": fname, "what": v.detail}));
    }
    for (desc, n) in &known_hits {
        println!("KNOWN-FINDING: property={} {} [matched {} minimised replays]", prop.id(), desc, n);
    }
    for l in &lines {
        println!("{}", l);
    }

    let wall = t0.elapsed().as_secs_f64();
    // samples: the first three scenarios of the batch, regenerated
    let mut samples = vec![];
    for i in o.from..(o.from + 3.min(total)) {
        let mut rng = Rng::new(run_seed(o.seed, prop.id(), i));
        samples.push(prop.generate(i, &mut rng, o.tier).brief());
    }
    // one later sample too (random part of the batch)
    if total > 10 {
        let i = o.from + total - 1;
        let mut rng = Rng::new(run_seed(o.seed, prop.id(), i));
        samples.push(prop.generate(i, &mut rng, o.tier).brief());
    }
    let mut fired = serde_json::Map::new();
    let mut reach = serde_json::Map::new();
    let mut skipped = serde_json::Map::new();
    let mut other = serde_json::Map::new();
    for (k, v) in &m.stats.c {
        if let Some(x) = k.strip_prefix("fault.") {
            fired.insert(x.into(), json!(v));
        } else if let Some(x) = k.strip_prefix("ev.") {
            fired.insert(format!("event.{}", x), json!(v));
        } else if let Some(x) = k.strip_prefix("reach.") {
            reach.insert(x.into(), json!(v));
        } else if let Some(x) = k.strip_prefix("skip.") {
            skipped.insert(x.into(), json!(v));
        } else {
            other.insert(k.clone(), json!(v));
        }
    }
    let mut unreached = vec![];
    for k in prop.must_reach(o.tier) {
        if m.stats.get(k) == 0 {
            unreached.push(k);
        }
    }
    let part = json!({
        "profile": profile_name(),
        "evaluations": m.evals,
        "invalid_scenarios": m.invalid,
        "distinct_topologies": m.topo.len(),
        "distinct_schedules": m.shapes.len(),
        "distinct_nontrivial": m.nontrivial_shapes.len(),
        "simulated_time_deliveries": m.stats.get("deliveries"),
        "runs_per_hour": (m.evals as f64 / search_s.max(1e-9) * 3600.0) as u64,
        "seeds_per_hour": (m.evals as f64 / search_s.max(1e-9) * 3600.0) as u64,
        "search_wall_s": search_s,
        "wall_s": wall,
        "batch_hash": format!("{:016x}", m.batch_hash),
        "fired": fired,
        "reach": reach,
        "skipped": skipped,
        "counters": other,
        "unreached_probes": unreached,
        "batch_truncated_by_wall_clock_budget": truncated.load(Ordering::Relaxed),
        "violating_runs": m.viol.len(),
        "violation_groups": groups.len(),
        "reported": reported,
        "unlisted_violations": unlisted,
        "violations_not_reproducible_in_fresh_process": not_reproducible,
        "known_findings_matched": known_hits.iter().map(|(k, v)| json!({"finding": k, "replays": v})).collect::<Vec<_>>(),
    });
    if let Some(p) = &o.part_out {
        if let Err(e) = std::fs::write(p, serde_json::to_string_pretty(&part).unwrap()) {
            eprintln!("HARNESS ERROR: cannot write {}: {}", p, e);
            return 2;
        }
    }
    if let Some(path) = &o.evidence {
        let mut parts = vec![];
        let mut evals = m.evals;
        let mut viol_total = unlisted;
        let mut wall_total = wall;
        for pf in &o.merge_parts {
            match std::fs::read_to_string(pf).ok().and_then(|s| serde_json::from_str::<Value>(&s).ok()) {
                Some(v) => {
                    evals += v["evaluations"].as_u64().unwrap_or(0);
                    viol_total += v["unlisted_violations"].as_u64().unwrap_or(0);
                    wall_total += v["wall_s"].as_f64().unwrap_or(0.0);
                    parts.push(v);
                }
                None => {
                    eprintln!("HARNESS ERROR: cannot read evidence part {}", pf);
                    return 2;
                }
            }
        }
        let mut cov = part.as_object().unwrap().clone();
        cov.insert("evaluations".into(), json!(evals));
        cov.insert("rule".into(), json!(prop.rule()));
        cov.insert("samples".into(), json!(samples));
        cov.insert("seed_range".into(), json!(format!("run i uses splitmix(VERIF_SEED={}, '{}', i) for i in {}..{}", o.seed, prop.id(), o.from, end)));
        cov.insert("components".into(), crate::props::components());
        cov.insert("workers".into(), json!(workers));
        if !parts.is_empty() {
            cov.insert("other_builds".into(), json!(parts));
        }
        let ev = json!({
            "property_id": prop.id(),
            "tier": o.tier.name(),
            "seed": o.seed,
            "level": "exploration",
            "coverage": cov,
            "assumptions": prop.assumptions(),
            "wall_s": wall_total,
            "violations": viol_total,
        });
        if let Err(e) = std::fs::write(path, serde_json::to_string_pretty(&ev).unwrap()) {
            eprintln!("HARNESS ERROR: cannot write evidence {}: {}", path, e);
            return 2;
        }
    }
    if !o.quiet {
        println!(
            "{} {} [{}]: {} runs, {} topologies, {} schedules ({} non-trivial), {} deliveries, {} violating runs in {} groups ({} unlisted), {:.1}s",
            prop.id(),
            o.tier.name(),
            profile_short(),
            m.evals,
            m.topo.len(),
            m.shapes.len(),
            m.nontrivial_shapes.len(),
            m.stats.get("deliveries"),
            m.viol.len(),
            groups.len(),
            unlisted,
            wall
        );
        if !unreached.is_empty() {
            println!("WARN: reach probes at zero: {:?}", unreached);
        }
        if truncated.load(Ordering::Relaxed) {
            println!("WARN: batch stopped after {} s with {} of {} runs executed (runs were pathologically slow on this tree)", batch_budget_s, m.evals, total);
        }
    }
    if unlisted > 0 {
        1
    } else {
        0
    }
}
