//! The feed: caller-side stream of values (the "upstream network" of a replica), its workload
//! shapes, and the faults the simulator injects into it. All values are finite.

use crate::rng::Rng;

pub const SHAPES: &[&str] = &[
    "iid_grid", "random_walk", "monotone_up", "monotone_down", "constant", "zeros_sparse", "sign_alternating",
    "volatile_then_flat", "step", "sine_noise", "mixed_segments", "two_valued", "iid_uniform", "zero_sum_pairs", "periodic", "mixed_magnitude",
];

/// shapes under which the state of any deterministic windowed computation is periodic after its warm-up
/// (constant, alternating, a short pattern repeated): nothing that *can* happen remains to happen late
pub fn is_periodic_shape(shape: u8) -> bool {
    matches!(shape as usize % SHAPES.len(), 4 | 6 | 14)
}

pub const SCALES: &[f64] = &[1e-3, 1e-2, 0.1, 0.5, 1.0, 1.0, 1.0, 2.0, 10.0, 100.0, 1e3, 1e4, 1e5, 1e6];

/// magnitude scale of a feed: the moderate range 1e-3..1e6, and in 1% of the picks a tiny one (1e-170, 1e-300,
/// subnormal 1e-310): a tiny non-zero value is an ordinary finite input, and squares of it underflow to zero
pub fn pick_scale(r: &mut Rng, allow_tiny: bool) -> f64 {
    // (not for trees with Multiply, Divide, Drawdown or LnReturn: a product of tiny values underflows to an exact
    // zero, a quotient by a subnormal overflows, and an average of tiny positive values may underflow to zero,
    // which puts the domain conditions "positive input / non-zero divisor" out of reach of any analysis)
    if allow_tiny && r.chance(0.01) {
        *r.pick(&[1e-170, 1e-300, 1e-310])
    } else {
        *r.pick(SCALES) / 4.25
    }
}

fn unit_shape(r: &mut Rng, shape: u8, len: usize) -> Vec<f64> {
    let mut v = Vec::with_capacity(len);
    match shape as usize % SHAPES.len() {
        0 => {
            for _ in 0..len {
                v.push((r.below(17) as f64 - 8.0) * 0.25);
            }
        }
        1 => {
            let mut x = 0.0f64;
            for _ in 0..len {
                x += r.gauss() * 0.1;
                if x > 2.0 {
                    x = 4.0 - x
                }
                if x < -2.0 {
                    x = -4.0 - x
                }
                v.push(x);
            }
        }
        2 | 3 => {
            // strictly monotone, bounded: a slow ramp that restarts rarely
            let step = 3.5 / (len.max(2) as f64);
            let sgn = if shape as usize % SHAPES.len() == 2 { 1.0 } else { -1.0 };
            for i in 0..len {
                v.push(sgn * (-1.75 + step * i as f64));
            }
        }
        4 => {
            let c = (r.below(17) as f64 - 8.0) * 0.25;
            for _ in 0..len {
                v.push(c);
            }
        }
        5 => {
            for _ in 0..len {
                if r.chance(0.15) {
                    v.push((r.below(9) as f64 - 4.0) * 0.5)
                } else {
                    v.push(0.0)
                }
            }
        }
        6 => {
            let a = 0.25 + 0.25 * r.below(6) as f64;
            for i in 0..len {
                v.push(if i % 2 == 0 { a } else { -a });
            }
        }
        7 => {
            // volatile stretch, then flat, possibly repeating
            let mut i = 0;
            while i < len {
                let vol = 1 + r.below(40);
                for _ in 0..vol {
                    if i < len {
                        v.push(r.uniform(-2.0, 2.0));
                        i += 1;
                    }
                }
                let c = if r.chance(0.5) { (r.below(17) as f64 - 8.0) * 0.25 } else { r.uniform(-2.0, 2.0) };
                // mostly short quiet stretches, some of hundreds to thousands of values (longer than most windows,
                // and than whatever a view may have queued up during the volatile stretch)
                let flat = if r.chance(0.15) { 150 + r.below(2850) } else { 1 + r.below(150) };
                for _ in 0..flat {
                    if i < len {
                        v.push(c);
                        i += 1;
                    }
                }
            }
        }
        8 => {
            let at = r.below(len.max(1));
            let a = r.uniform(-2.0, 2.0);
            let b = r.uniform(-2.0, 2.0);
            for i in 0..len {
                v.push(if i < at { a } else { b });
            }
        }
        9 => {
            let per = 3.0 + r.below(60) as f64;
            let ph = r.unit() * 6.28;
            let noise = *r.pick(&[0.0, 0.01, 0.1, 0.3]);
            for i in 0..len {
                v.push(1.4 * (ph + 6.283185307179586 * i as f64 / per).sin() + noise * r.gauss());
            }
        }
        10 => {
            while v.len() < len {
                let seg = 1 + r.below(60);
                let sh = r.below(SHAPES.len()) as u8;
                let sh = if sh == 10 || sh == 15 { 0 } else { sh };
                let part = unit_shape(r, sh, seg.min(len - v.len()));
                v.extend(part);
            }
        }
        11 => {
            let a = (r.below(17) as f64 - 8.0) * 0.25;
            let b = (r.below(17) as f64 - 8.0) * 0.25;
            for _ in 0..len {
                v.push(if r.chance(0.5) { a } else { b });
            }
        }
        12 => {
            for _ in 0..len {
                v.push(r.uniform(-2.0, 2.0));
            }
        }
        14 => {
            // a short random pattern on the grid, repeated for ever (period 1..48); or, in 30% of the cases, one
            // "session" repeated for ever: a few volatile off-grid values, then the last one held for a stretch
            // that is longer than most windows (period 3..120) - every period drives a large-to-flat transition
            // through the window, with whatever rounding residue that leaves behind
            let pat: Vec<f64> = if r.chance(0.3) {
                let k = 1 + r.below(20);
                let f = 2 + r.below(100);
                let mut v: Vec<f64> = (0..k).map(|_| r.uniform(-2.0, 2.0)).collect();
                let held = v[k - 1];
                v.extend(std::iter::repeat(held).take(f));
                v
            } else {
                let p = 1 + r.below(48);
                (0..p).map(|_| (r.below(17) as f64 - 8.0) * 0.25).collect()
            };
            let p = pat.len();
            for i in 0..len {
                v.push(pat[i % p]);
            }
        }
        15 => {
            // ordinary grid values with one value in ten 1e315 times smaller (non-zero, subnormal): a ratio between a current
            // and an old value can then overflow although every input is finite (under a positive feed the
            // affine map to positive values makes this an ordinary grid stream)
            for _ in 0..len {
                let x = (r.below(17) as f64 - 8.0) * 0.25;
                v.push(if r.chance(0.1) { x * 1e-315 } else { x });
            }
        }
        _ => {
            // windows whose sum is exactly zero: x, -x pairs on the grid
            while v.len() < len {
                let a = (r.below(8) as f64 + 1.0) * 0.25;
                v.push(a);
                if v.len() < len {
                    v.push(-a);
                }
            }
        }
    }
    v
}

/// `len` finite values with |x| <= 4.25*scale; strictly positive (>= 0.05*scale) when `positive`.
pub fn gen_shape(r: &mut Rng, shape: u8, len: usize, scale: f64, positive: bool) -> Vec<f64> {
    let u = unit_shape(r, shape, len);
    let mut v: Vec<f64> = u
        .into_iter()
        .map(|x| {
            let x = x.clamp(-2.0, 2.0);
            if positive {
                scale * (2.25 + x).max(0.05)
            } else {
                scale * x
            }
        })
        .collect();
    if !positive {
        // a negative zero is a finite input too: half of the exact zeros of a signed stream carry the sign bit
        let mut bits = r.next_u64();
        let mut left = 64;
        for x in v.iter_mut() {
            if *x == 0.0 {
                if left == 0 {
                    bits = r.next_u64();
                    left = 64;
                }
                if bits & 1 == 1 {
                    *x = -0.0;
                }
                bits >>= 1;
                left -= 1;
            }
        }
    }
    v
}

/// stream lengths for the rare long runs: logic that only engages after thousands of updates tends to sit
/// at round thresholds (4096, 2^16, 2^17, 2^20), so the classes straddle those
pub fn long_len(r: &mut Rng) -> usize {
    let x = r.unit();
    if x < 0.5 {
        r.range(4_200, 20_000)
    } else if x < 0.75 {
        r.range(66_000, 80_000)
    } else if x < 0.9 {
        r.range(132_000, 150_000)
    } else {
        r.range(1_050_000, 1_100_000)
    }
}

/// The mixed-magnitude shape is not used for trees containing CenterOfGravity: its denominator is the plain sum
/// of the window, which on signed data of very different magnitudes can be non-zero and 1e300 times smaller
/// than the numerator - overflow of an unbounded function, not a defect (its bound in the properties is for
/// positive inputs).
pub fn shape_for(trees: &[crate::spec::Spec], shape: u8) -> u8 {
    if shape as usize % SHAPES.len() == 15 && trees.iter().any(|t| t.contains(crate::spec::K::CoG)) {
        0
    } else {
        shape
    }
}

/// like gen_shape, for a sign class: Any = signed values with zeros, NonNeg = magnitudes with the exact
/// zeros kept, Positive = strictly positive
pub fn gen_signed(r: &mut Rng, shape: u8, len: usize, scale: f64, sign: crate::spec::Sign) -> Vec<f64> {
    use crate::spec::Sign;
    match sign {
        Sign::Positive => gen_shape(r, shape, len, scale, true),
        Sign::Any => gen_shape(r, shape, len, scale, false),
        Sign::NonNeg => gen_shape(r, shape, len, scale, false).into_iter().map(|x| if x == 0.0 { x } else { x.abs() }).collect(),
    }
}

#[derive(Clone, Debug, Default)]
pub struct FaultCfg {
    pub p_drop: f64,
    pub p_dup: f64,
    pub p_swap: f64,
    pub p_corrupt: f64,
    pub p_spike: f64,
    pub spike_mag: f64,
    pub extra_prefix: usize,
}

#[derive(Clone, Debug, Default)]
pub struct FaultCount {
    pub drop: u64,
    pub dup: u64,
    pub swap: u64,
    pub corrupt: u64,
    pub spike: u64,
    pub extra: u64,
}

impl FaultCfg {
    /// swarm: each fault kind independently enabled, with a per-run rate
    pub fn swarm(r: &mut Rng, max_extra: usize, spike_mag: f64) -> FaultCfg {
        let mut rate = |r: &mut Rng| if r.chance(0.5) { *r.pick(&[0.01, 0.05, 0.2]) } else { 0.0 };
        FaultCfg {
            p_drop: rate(r),
            p_dup: rate(r),
            p_swap: rate(r),
            p_corrupt: rate(r),
            p_spike: if r.chance(0.5) { *r.pick(&[0.01, 0.05]) } else { 0.0 },
            spike_mag,
            extra_prefix: if r.chance(0.5) { r.below(max_extra + 1) } else { 0 },
        }
    }
}

/// Apply feed faults to `base`. Returns the faulted stream and what actually fired.
pub fn apply_faults(r: &mut Rng, base: &[f64], cfg: &FaultCfg, scale: f64, positive: bool) -> (Vec<f64>, FaultCount) {
    let mut out = Vec::with_capacity(base.len() + cfg.extra_prefix + 8);
    let mut c = FaultCount::default();
    let fix = |x: f64| if positive { x.abs().max(0.05 * scale) } else { x };
    for _ in 0..cfg.extra_prefix {
        out.push(fix(scale * r.uniform(-2.0, 2.0)));
        c.extra += 1;
    }
    let mut i = 0;
    while i < base.len() {
        let x = base[i];
        if r.chance(cfg.p_drop) {
            c.drop += 1;
            i += 1;
            continue;
        }
        if r.chance(cfg.p_swap) && i + 1 < base.len() {
            out.push(base[i + 1]);
            out.push(x);
            c.swap += 1;
            i += 2;
            continue;
        }
        if r.chance(cfg.p_corrupt) {
            out.push(fix(scale * r.uniform(-2.0, 2.0)));
            c.corrupt += 1;
            i += 1;
            continue;
        }
        if r.chance(cfg.p_spike) {
            let n = 1 + r.below(4);
            for _ in 0..n {
                let s = if r.chance(0.5) { 1.0 } else { -1.0 };
                out.push(fix(s * scale * cfg.spike_mag * r.uniform(0.5, 1.0)));
            }
            c.spike += 1;
        }
        out.push(x);
        if r.chance(cfg.p_dup) {
            out.push(x);
            c.dup += 1;
        }
        i += 1;
    }
    (out, c)
}
