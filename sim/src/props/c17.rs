//! C17 — determinism, purity of last(), independence of twins and clones under arbitrary
//! interleavings, drops and thread migration.

use super::common::*;
use super::*;
use crate::dynview::{Ctx, Dyn};
use crate::engine::*;
use crate::feed::{gen_shape, SCALES, SHAPES};
use crate::gen::*;
use crate::rng::Fnv;
use crate::scenario::{Ev, Scenario};
use crate::spec::{Spec, K};
use std::sync::mpsc::{channel, Receiver, Sender};

pub struct C17;

#[derive(Clone, Copy, Debug)]
enum Op {
    /// update, then one last()
    D(f64),
    /// update only (silent delivery)
    U(f64),
    O(u8),
}

struct Rep {
    view: Option<Dyn<f64>>,
    tree: usize,
    ops: Vec<Op>,
    obs: Vec<Option<u64>>,
    home: u8,
    forked_at: Option<usize>,
}

enum Job {
    Update(Dyn<f64>, f64),
    UpdateOnly(Dyn<f64>, f64),
    Last(Dyn<f64>, u8),
    Clone(Dyn<f64>),
    /// dst.clone_from(&src)
    Restore(Dyn<f64>, Dyn<f64>),
    Drop(Dyn<f64>),
    Quit,
}
enum Done {
    Update(Dyn<f64>, Result<Option<f64>, PanicInfo>),
    Last(Dyn<f64>, Result<Vec<Option<f64>>, PanicInfo>),
    Clone(Dyn<f64>, Result<Dyn<f64>, PanicInfo>),
    Restore(Dyn<f64>, Dyn<f64>, Result<(), PanicInfo>),
    Drop(Result<(), PanicInfo>),
}

fn do_job(j: Job) -> Option<Done> {
    Some(match j {
        Job::Update(mut v, x) => {
            let r = try_update(&mut v, x).and_then(|_| try_last(&v));
            Done::Update(v, r)
        }
        Job::UpdateOnly(mut v, x) => {
            let r = try_update(&mut v, x).map(|_| None);
            Done::Update(v, r)
        }
        Job::Last(v, k) => {
            let mut outs = Vec::with_capacity(k as usize);
            let mut err = None;
            for _ in 0..k {
                match try_last(&v) {
                    Ok(o) => outs.push(o),
                    Err(p) => {
                        err = Some(p);
                        break;
                    }
                }
            }
            Done::Last(v, match err {
                Some(p) => Err(p),
                None => Ok(outs),
            })
        }
        Job::Clone(v) => {
            let c = try_clone(&v);
            Done::Clone(v, c)
        }
        Job::Restore(mut dst, src) => {
            let r = guarded(|| dst.clone_from(&src));
            Done::Restore(dst, src, r)
        }
        Job::Drop(v) => Done::Drop(try_drop(v)),
        Job::Quit => return None,
    })
}

/// helper OS threads; exactly one thread runs at any time (the caller blocks on the reply)
struct Helpers {
    tx: Vec<Option<(Sender<Job>, Receiver<Done>, std::thread::JoinHandle<()>)>>,
}
impl Helpers {
    fn new() -> Helpers {
        Helpers { tx: vec![None, None] }
    }
    fn run(&mut self, home: u8, job: Job) -> Done {
        if home == 0 {
            return do_job(job).expect("HARNESS: quit job on main");
        }
        let idx = (home as usize - 1) % 2;
        if self.tx[idx].is_none() {
            let (jtx, jrx) = channel::<Job>();
            let (dtx, drx) = channel::<Done>();
            let h = std::thread::spawn(move || {
                while let Ok(j) = jrx.recv() {
                    match do_job(j) {
                        Some(d) => {
                            if dtx.send(d).is_err() {
                                break;
                            }
                        }
                        None => break,
                    }
                }
            });
            self.tx[idx] = Some((jtx, drx, h));
        }
        let (jtx, drx, _) = self.tx[idx].as_ref().unwrap();
        jtx.send(job).expect("HARNESS: helper thread gone");
        drx.recv().expect("HARNESS: helper thread died")
    }
}
impl Drop for Helpers {
    fn drop(&mut self) {
        for t in self.tx.iter_mut() {
            if let Some((jtx, _, h)) = t.take() {
                let _ = jtx.send(Job::Quit);
                let _ = h.join();
            }
        }
    }
}

/// canonical isolated sequential reference: fresh instance, only its own deliveries, one last() per delivery
fn reference(spec: &Spec, ops: &[Op]) -> Result<Vec<Option<u64>>, PanicInfo> {
    let mut ctx = Ctx::default();
    let mut v = try_build::<f64>(spec, &mut ctx)?;
    let mut cur = try_last(&v)?.map(f64::to_bits);
    let mut out = Vec::with_capacity(ops.len());
    for op in ops {
        match *op {
            Op::D(x) => {
                try_update(&mut v, x)?;
                cur = try_last(&v)?.map(f64::to_bits);
                out.push(cur);
            }
            Op::U(x) => {
                // the canonical reference reads last() after every delivery even where the replica did not
                try_update(&mut v, x)?;
                cur = try_last(&v)?.map(f64::to_bits);
            }
            Op::O(k) => {
                for _ in 0..k {
                    out.push(cur);
                }
            }
        }
    }
    let _ = try_drop(v);
    Ok(out)
}

fn related_tree(r: &mut Rng, base: &Spec) -> Spec {
    // same kinds, different parameters: global or thread-local scratch state keyed by kind, or by kind
    // and window length, would collide between the replicas
    let mut t = base.clone();
    fn bump(r: &mut Rng, s: &mut Spec, positive: bool) {
        if s.k.has_n() && r.chance(0.5) {
            s.n = gen_n(r, if s.k == K::Net { 64 } else { 1000 });
        }
        if r.chance(0.6) {
            gen_params(r, s, positive);
        }
        if s.k == K::EmaAlpha && s.p > s.n as f64 + 1.0 {
            s.p = 1.0;
        }
        let child_pos = positive || matches!(s.k, K::Drawdown | K::LnReturn);
        let is_div = s.k == K::Div;
        for (i, k) in s.kids.iter_mut().enumerate() {
            bump(r, k, child_pos || (is_div && i == 1));
        }
    }
    bump(r, &mut t, false);
    if !t.domain_ok_positive_feed() {
        return base.clone();
    }
    t
}

impl Prop for C17 {
    fn id(&self) -> &'static str {
        "C17"
    }
    fn runs(&self, tier: Tier) -> u64 {
        match tier {
            Tier::Quick => 30_000,
            Tier::Thorough => 1_000_000,
        }
    }
    fn generate(&self, i: u64, r: &mut Rng, _tier: Tier) -> Scenario {
        let mut sc = Scenario::new("C17", "parties");
        let ws = wrappers();
        // base tree: systematic single wrappers first (every view is a party at least a few times), then random
        let depth = r.range(1, 3);
        let cfg = TreeCfg::full(depth, LeafMode::StallMix);
        let base = if i < (ws.len() * 8) as u64 {
            let k = ws[i as usize % ws.len()];
            let n = gen_n(r, 32);
            let mk = crate::gen::pick_ma_kind(r);
            let mut ma = Spec::un(mk, r.range(1, 6), Spec::echo());
            gen_params(r, &mut ma, false);
            let mut s = wrap(r, k, n, Spec::echo(), Some(ma));
            gen_params(r, &mut s, false);
            s
        } else {
            loop {
                let t = gen_tree(r, &cfg, depth, 3, false, false);
                if t.domain_ok_positive_feed() && t.k.arity() > 0 {
                    break t;
                }
            }
        };
        let n_rep = r.range(2, 4);
        let twins = r.chance(0.6);
        let mut trees = vec![base.clone()];
        for j in 1..n_rep {
            if j == 1 && twins {
                trees.push(base.clone());
            } else if r.chance(0.5) {
                trees.push(related_tree(r, &base));
            } else {
                let d2 = r.range(1, 2);
                let cfg2 = TreeCfg::full(d2, LeafMode::StallMix);
                trees.push(loop {
                    let t = gen_tree(r, &cfg2, d2, 3, false, false);
                    if t.domain_ok_positive_feed() && t.k.arity() > 0 {
                        break t;
                    }
                });
            }
        }
        let sign = pick_feed_sign(r, &trees);
        let scale = crate::feed::pick_scale(r, !trees.iter().any(|t| t.needs_positive_feed() || t.contains(K::Mul)));
        // 1% of runs are long (logic that only engages after thousands of updates)
        let long_run = r.chance(0.01);
        let n_events = if long_run { r.range(4_500, 12_000) } else { r.range(20, 600) };
        // per-replica feeds (twins share one)
        let mut feeds: Vec<Vec<f64>> = vec![];
        for j in 0..n_rep {
            if j == 1 && twins {
                let f0 = feeds[0].clone();
                feeds.push(f0);
            } else {
                let shape = crate::feed::shape_for(&trees, r.below(SHAPES.len()) as u8);
                feeds.push(crate::feed::gen_signed(r, shape, n_events + 8, scale, sign));
            }
        }
        let mut cursor: Vec<usize> = vec![0; n_rep];
        let mut feed_of: Vec<usize> = (0..n_rep).collect();
        let mut alive: Vec<bool> = vec![true; n_rep];
        let mut tree_of: Vec<usize> = (0..n_rep).collect();
        let p_fork = *r.pick(&[0.0, 0.01, 0.03, 0.08]);
        let p_drop = *r.pick(&[0.0, 0.005, 0.02]);
        let p_mig = if long_run { 0.0005 } else { *r.pick(&[0.0, 0.0, 0.02, 0.1]) };
        let p_obs = *r.pick(&[0.05, 0.15, 0.4]);
        // restore: dst.clone_from(&src) between two live replicas of the same spec (twins, forks)
        let p_restore = *r.pick(&[0.0, 0.0, 0.01, 0.04]);
        // silent deliveries: update() without a following last(); the canonical reference reads after every one
        let p_silent = *r.pick(&[0.0, 0.3, 0.7, 0.95]);
        let mut ev = vec![];
        for _ in 0..n_events {
            let live: Vec<usize> = (0..alive.len()).filter(|j| alive[*j]).collect();
            if live.is_empty() {
                break;
            }
            let j = *r.pick(&live);
            let x = r.unit();
            if x < p_fork && alive.len() < 8 && trees[tree_of[j]].cloneable() {
                ev.push(Ev::F { r: j as u8 });
                alive.push(true);
                tree_of.push(tree_of[j]);
                // same subsequent inputs as the parent, or a divergent continuation
                if r.chance(0.5) {
                    feed_of.push(feed_of[j]);
                    cursor.push(cursor[j]);
                } else {
                    let shape = crate::feed::shape_for(&trees, r.below(SHAPES.len()) as u8);
                    feeds.push(crate::feed::gen_signed(r, shape, n_events + 8, scale, sign));
                    feed_of.push(feeds.len() - 1);
                    cursor.push(0);
                }
            } else if x < p_fork + p_restore {
                let mates: Vec<usize> = live.iter().copied().filter(|k| *k != j && tree_of[*k] == tree_of[j]).collect();
                if mates.is_empty() || !trees[tree_of[j]].cloneable() {
                    continue;
                }
                let k = *r.pick(&mates);
                ev.push(Ev::C { r: j as u8, src: k as u8 });
                // afterwards j either shares src's remaining inputs or continues on its own feed
                if r.chance(0.5) {
                    feed_of[j] = feed_of[k];
                    cursor[j] = cursor[k];
                }
            } else if x < p_fork + p_restore + p_drop && live.len() > 1 {
                ev.push(Ev::X { r: j as u8 });
                alive[j] = false;
            } else if x < p_fork + p_restore + p_drop + p_mig {
                ev.push(Ev::M { r: j as u8, th: r.below(3) as u8 });
            } else if x < p_fork + p_restore + p_drop + p_mig + p_obs {
                ev.push(Ev::O { r: j as u8, k: 1 + r.below(5) as u8 });
            } else {
                let f = &feeds[feed_of[j]];
                let v = f[cursor[j] % f.len()];
                cursor[j] += 1;
                let tag = if r.chance(p_silent) { crate::scenario::SILENT } else { 0 };
                ev.push(Ev::D { r: j as u8, v, tag });
            }
        }
        sc.trees = trees;
        sc.events = ev;
        sc.set_int("twins01", twins as i64);
        sc
    }

    fn hermetic(&self) -> bool {
        true
    }
    fn post_batch(&self, seed: u64, total: u64, tier: Tier) -> Vec<Scenario> {
        let mut sc = Scenario::new("C17", "crossproc");
        let runs = total.min(if tier == Tier::Quick { 4_000 } else { 40_000 });
        sc.set_int("seed", seed as i64);
        sc.set_int("runs", runs as i64);
        sc.set_int("chunk", if tier == Tier::Quick { 100 } else { 400 });
        sc.set_int("thorough", (tier == Tier::Thorough) as i64);
        vec![sc]
    }

    fn execute(&self, sc: &Scenario) -> RunOut {
        let mut out = RunOut::default();
        if sc.mode == "crossproc" {
            // The first `runs` seeds of the batch are executed again in many short-lived OS processes (fresh ASLR,
            // fresh hasher seeds, fresh statics; alternately 3 and 16 workers), `chunk` runs each, and every run's
            // history hash is compared with the one the long-lived main process computed: state that lives in the
            // process (a static, a once-flag, a global counter) makes a young process answer differently from an old one.
            let seed = sc.int("seed").unwrap_or(0) as u64;
            let runs = sc.int("runs").unwrap_or(0).max(1) as u64;
            let chunk = sc.int("chunk").unwrap_or(100).max(1) as u64;
            let thorough = sc.int("thorough").unwrap_or(0) != 0;
            let tier = if thorough { "thorough" } else { "quick" };
            let main: Vec<(u64, u64)> = match crate::props::MAIN_HISTS.lock().unwrap().clone() {
                Some(v) if v.len() as u64 >= runs => v,
                _ => {
                    // replay in a fresh process: age this process by executing the runs here first
                    let t = if thorough { Tier::Thorough } else { Tier::Quick };
                    (0..runs)
                        .map(|i| {
                            let mut rng = Rng::new(crate::rng::run_seed(seed, "C17", i));
                            let s = self.generate(i, &mut rng, t);
                            (i, crate::runner::exec_hermetic(self, &s).hist)
                        })
                        .collect()
                }
            };
            let exe = match std::env::current_exe() {
                Ok(e) => e,
                Err(_) => {
                    eprintln!("HARNESS ERROR: current_exe");
                    std::process::exit(2);
                }
            };
            let mut from = 0u64;
            let mut c = 0u64;
            while from < runs {
                let n = chunk.min(runs - from);
                let tmp = std::env::temp_dir().join(format!("sim-cross-{}-{}.txt", std::process::id(), c));
                let workers = if c % 2 == 0 { "3" } else { "16" };
                let st = std::process::Command::new(&exe)
                    .args(["run", "C17", tier, "--seed", &seed.to_string(), "--from", &from.to_string(), "--runs", &n.to_string(), "--workers", workers, "--hash-only", "--dump-hashes"])
                    .arg(&tmp)
                    .output();
                let txt = std::fs::read_to_string(&tmp).unwrap_or_default();
                let _ = std::fs::remove_file(&tmp);
                if st.is_err() || txt.is_empty() {
                    eprintln!("HARNESS ERROR: could not run a cross-process child");
                    std::process::exit(2);
                }
                for line in txt.lines() {
                    let mut it = line.split_whitespace();
                    let i: u64 = it.next().and_then(|x| x.parse().ok()).unwrap_or(u64::MAX);
                    let hch = it.next().and_then(|x| u64::from_str_radix(x, 16).ok()).unwrap_or(0);
                    if let Ok(pos) = main.binary_search_by_key(&i, |e| e.0) {
                        out.stats.hit("oracle.cross_process_runs_compared");
                        if main[pos].1 != hch && out.violation.is_none() {
                            out.violation = Some(Violation::new(
                                "cross_process_divergence",
                                "",
                                i as usize,
                                format!("run {} of seed {} gave history hash {:016x} in the long-lived main process and {:016x} in a fresh process of {} runs: the library keeps state that outlives its views", i, seed, main[pos].1, hch, n),
                            ));
                        }
                    }
                }
                out.stats.hit("reach.cross_process_child");
                from += n;
                c += 1;
            }
            out.nontrivial = true;
            return out;
        }
        if let Err(e) = domain_check(sc, MAX_MAG) {
            out.invalid = Some(e);
            return out;
        }
        if sc.trees.is_empty() {
            out.invalid = Some("no tree".into());
            return out;
        }
        let mut h = Fnv::new();
        let mut reps: Vec<Rep> = vec![];
        for (ti, t) in sc.trees.iter().enumerate() {
            let mut ctx = Ctx::default();
            match try_build::<f64>(t, &mut ctx) {
                Ok(v) => reps.push(Rep { view: Some(v), tree: ti, ops: vec![], obs: vec![], home: 0, forked_at: None }),
                Err(_) => {
                    out.stats.hit("skip.ctor_rejected");
                    return out;
                }
            }
        }
        let mut helpers = Helpers::new();
        let mut special = false;
        let mut deliveries = 0u64;
        let mut panicked = false;
        'ev: for (step, e) in sc.events.iter().enumerate() {
            let r = e.replica() as usize;
            if r >= reps.len() || reps[r].view.is_none() {
                continue;
            }
            match *e {
                Ev::D { v, tag, .. } => {
                    let view = reps[r].view.take().unwrap();
                    let home = reps[r].home;
                    if home != 0 {
                        out.stats.hit("reach.op_on_helper_thread");
                    }
                    let silent = tag == crate::scenario::SILENT;
                    match helpers.run(home, if silent { Job::UpdateOnly(view, v) } else { Job::Update(view, v) }) {
                        Done::Update(view, res) => {
                            reps[r].view = Some(view);
                            match res {
                                Ok(o) => {
                                    if silent {
                                        out.stats.hit("ev.deliver_silent");
                                        reps[r].ops.push(Op::U(v));
                                    } else {
                                        h.opt(o);
                                        reps[r].ops.push(Op::D(v));
                                        reps[r].obs.push(o.map(f64::to_bits));
                                    }
                                }
                                Err(_) => {
                                    panicked = true;
                                    break 'ev;
                                }
                            }
                        }
                        _ => unreachable!(),
                    }
                    deliveries += 1;
                    out.stats.hit("ev.deliver");
                    if special {
                        out.nontrivial = true;
                    }
                    if reps[r].forked_at.is_some() {
                        out.stats.hit("reach.delivery_to_clone");
                    }
                }
                Ev::O { k, .. } => {
                    let view = reps[r].view.take().unwrap();
                    let home = reps[r].home;
                    match helpers.run(home, Job::Last(view, k)) {
                        Done::Last(view, res) => {
                            reps[r].view = Some(view);
                            match res {
                                Ok(os) => {
                                    reps[r].ops.push(Op::O(k));
                                    for o in os {
                                        h.opt(o);
                                        reps[r].obs.push(o.map(f64::to_bits));
                                    }
                                }
                                Err(_) => {
                                    panicked = true;
                                    break 'ev;
                                }
                            }
                        }
                        _ => unreachable!(),
                    }
                    out.stats.add("ev.observe", k as u64);
                    if k > 1 {
                        special = true;
                    }
                }
                Ev::F { .. } => {
                    if !sc.trees[reps[r].tree].cloneable() || reps.len() >= 16 {
                        continue;
                    }
                    let view = reps[r].view.take().unwrap();
                    let home = reps[r].home;
                    match helpers.run(home, Job::Clone(view)) {
                        Done::Clone(view, res) => {
                            reps[r].view = Some(view);
                            match res {
                                Ok(c) => {
                                    let n_ops = reps[r].ops.len();
                                    let deliv = reps[r].ops.iter().filter(|o| matches!(o, Op::D(_) | Op::U(_))).count();
                                    let t = &sc.trees[reps[r].tree];
                                    if deliv < t.window_sum() {
                                        out.stats.hit("reach.clone_during_warmup");
                                    } else {
                                        out.stats.hit("reach.clone_after_warmup");
                                    }
                                    let (ops, obs, tree) = (reps[r].ops.clone(), reps[r].obs.clone(), reps[r].tree);
                                    reps.push(Rep { view: Some(c), tree, ops, obs, home, forked_at: Some(n_ops) });
                                    out.stats.hit("ev.fork");
                                    special = true;
                                }
                                Err(_) => {
                                    panicked = true;
                                    break 'ev;
                                }
                            }
                        }
                        _ => unreachable!(),
                    }
                }
                Ev::X { .. } => {
                    let view = reps[r].view.take().unwrap();
                    let home = reps[r].home;
                    match helpers.run(home, Job::Drop(view)) {
                        Done::Drop(Ok(())) => {}
                        Done::Drop(Err(_)) => {
                            panicked = true;
                            break 'ev;
                        }
                        _ => unreachable!(),
                    }
                    out.stats.hit("ev.drop");
                    special = true;
                }
                Ev::M { th, .. } => {
                    let th = th % 3;
                    if th != reps[r].home {
                        reps[r].home = th;
                        out.stats.hit("ev.migrate");
                        special = true;
                    }
                }
                Ev::C { src, .. } => {
                    let s = src as usize;
                    if s == r || s >= reps.len() || reps[s].view.is_none() || reps[s].tree != reps[r].tree || !sc.trees[reps[r].tree].cloneable() {
                        continue;
                    }
                    let dst = reps[r].view.take().unwrap();
                    let srcv = reps[s].view.take().unwrap();
                    let home = reps[r].home;
                    match helpers.run(home, Job::Restore(dst, srcv)) {
                        Done::Restore(dst, srcv, res) => {
                            reps[r].view = Some(dst);
                            reps[s].view = Some(srcv);
                            if res.is_err() {
                                panicked = true;
                                break 'ev;
                            }
                        }
                        _ => unreachable!(),
                    }
                    // from here on r's history is src's history
                    let n_ops = reps[s].ops.len();
                    let (ops, obs) = (reps[s].ops.clone(), reps[s].obs.clone());
                    let had = reps[r].ops.iter().filter(|o| matches!(o, Op::D(_) | Op::U(_))).count();
                    if had > 0 {
                        out.stats.hit("reach.restore_into_used_instance");
                    } else {
                        out.stats.hit("reach.restore_into_fresh_instance");
                    }
                    reps[r].ops = ops;
                    reps[r].obs = obs;
                    reps[r].forked_at = Some(n_ops);
                    out.stats.hit("ev.restore_clone_from");
                    special = true;
                }
                Ev::L { .. } => {}
            }
            let _ = step;
        }
        drop(helpers);
        out.stats.add("deliveries", deliveries);
        if panicked {
            out.stats.hit("skip.panic");
            out.hist = h.0;
            return out;
        }
        // history check: every replica against its isolated canonical reference, computed on a fresh thread
        let jobs: Vec<(Spec, Vec<Op>)> = reps.iter().map(|r| (sc.trees[r.tree].clone(), r.ops.clone())).collect();
        let refs: Vec<Result<Vec<Option<u64>>, PanicInfo>> = std::thread::spawn(move || jobs.iter().map(|(s, ops)| reference(s, ops)).collect()).join().expect("HARNESS: reference thread");
        for (ri, (rep, rf)) in reps.iter().zip(refs.iter()).enumerate() {
            let rf = match rf {
                Ok(x) => x,
                Err(_) => {
                    out.stats.hit("skip.panic");
                    continue;
                }
            };
            out.stats.add("oracle.observations_checked", rep.obs.len() as u64);
            if rf.len() != rep.obs.len() {
                eprintln!("HARNESS ERROR: reference length mismatch");
                std::process::exit(2);
            }
            if let Some(t) = (0..rf.len()).find(|&t| rf[t] != rep.obs[t]) {
                // classify: which op does observation t belong to?
                let mut idx = 0usize;
                let mut class = "diverged_from_isolated_run";
                for op in &rep.ops {
                    match op {
                        Op::U(_) => {}
                        Op::D(_) => {
                            if idx == t {
                                break;
                            }
                            idx += 1;
                        }
                        Op::O(k) => {
                            if t < idx + *k as usize {
                                class = "last_not_pure";
                                break;
                            }
                            idx += *k as usize;
                        }
                    }
                }
                let show = |x: Option<u64>| x.map(|b| format!("{}", f64::from_bits(b))).unwrap_or("None".into());
                out.violation = Some(Violation::new(
                    class,
                    "",
                    t,
                    format!(
                        "replica {} ({}{}): observation #{} is {} but an isolated instance fed the same {} deliveries (one last() per delivery) reports {}",
                        ri,
                        sc.trees[rep.tree].show(),
                        rep.forked_at.map(|f| format!(", clone taken after op {}", f)).unwrap_or_default(),
                        t,
                        show(rep.obs[t]),
                        rep.ops.iter().filter(|o| matches!(o, Op::D(_) | Op::U(_))).count(),
                        show(rf[t])
                    ),
                ));
                break;
            }
        }
        // drop what is left
        for rep in reps.iter_mut() {
            if let Some(v) = rep.view.take() {
                let _ = try_drop(v);
            }
        }
        out.hist = h.0;
        out
    }

    fn rule(&self) -> String {
        "2-4 initial replicas per run: with probability 0.6 replicas 0 and 1 are twins (same spec, same feed); the others are the same tree with other window lengths or unrelated trees, alive at the same time. The seeded scheduler picks a live replica and an event: Deliver (own feed cursor; with a per-run probability of 0/0.3/0.7/0.95 the delivery is silent, i.e. update() without a following last()), Observe (last() 1-5 times), Fork (clone; the clone either shares the parent's remaining inputs or gets a divergent feed), Restore (dst.clone_from(&src) between two live replicas of the same spec, into fresh and into used instances), Drop, Migrate (subsequent operations of that replica execute on one of two helper OS threads, baton hand-off so exactly one thread runs). After the run every replica's complete observation log is compared bit for bit with a canonical isolated reference computed on a fresh thread: a fresh instance of the same spec fed only that replica's deliveries (a clone's reference replays the parent's history up to the fork) with exactly one last() after every delivery (also after the ones the replica delivered silently), so a last() whose being called or not called changes later results shows up; repeated last() results must equal the latest post-delivery value. After the batch its first 4 000 runs (thorough 40 000) are executed again in 40 (100) short-lived child processes, alternately with 3 and 16 workers, and every run's history hash is compared with the one computed in the long-lived main process. distinct = distinct (topologies, event-kind schedule); non-trivial = a fork, drop, migration or repeated last() fired and a delivery was checked after it."
            .into()
    }
    fn assumptions(&self) -> Vec<String> {
        vec![
            "inputs finite, magnitude within [1e-3,1e7] or 0, positive where a tree needs it".into(),
            "Add does not implement Clone: trees containing it get twins, never forks".into(),
            "a panic ends the run (skipped.panic): crashes belong to C15".into(),
        ]
    }
    fn must_reach(&self, _t: Tier) -> Vec<&'static str> {
        vec!["ev.fork", "ev.drop", "ev.migrate", "ev.deliver_silent", "ev.restore_clone_from", "reach.restore_into_used_instance", "reach.op_on_helper_thread", "reach.clone_during_warmup", "reach.clone_after_warmup", "reach.delivery_to_clone"]
    }
}
