//! C03 — finite memory: complete recovery K deliveries after feed faults stop.
//! Two replicas, independent fault realisations confined to a prefix, common clean suffix.
//! Deciding mode: the library instantiated at the exact scalar Q (no tolerance).
//! Confirming mode: f64 on views without error amplification, tolerance 1e-6 * scale.

use super::common::*;
use super::*;
use crate::dynview::{Ctx, Scalar};
use crate::engine::*;
use crate::feed::{apply_faults, gen_shape, FaultCfg, SHAPES};
use crate::gen::*;
use crate::q::Q;
use crate::rng::Fnv;
use crate::scenario::{Feed, Scenario};
use crate::spec::{Spec, K};
use num::Float;

pub struct C03;

/// the non-recursive windowed views of the property, as (kind, is-PFE-with-this-MA)
pub const WINDOWED: &[K] = &[
    K::Sma, K::Cumulative, K::Min, K::Max, K::Roc, K::WelfordOnline, K::WoMean, K::WoVar, K::Vst, K::Vsct, K::HLNormalizer,
    K::BinaryEntropy, K::CoG, K::Cti, K::Net, K::Rsi, K::MyRsi, K::Alma, K::AlmaCustom, K::Pfe,
];
/// views for which f64 rounding cannot be amplified (see DESIGN.md): the f64 confirmation runs only these
pub const F64_OK: &[K] = &[K::Sma, K::Cumulative, K::Min, K::Max, K::Roc, K::HLNormalizer, K::BinaryEntropy, K::CoG, K::Cti, K::Net, K::Rsi, K::MyRsi, K::Alma, K::Pfe];

/// memory length K: the output is a function of the last K delivered values
pub fn k_of(s: &Spec) -> Option<usize> {
    let n = s.n;
    let own = match s.k {
        K::Echo | K::Probe => return Some(1),
        K::Sma | K::Cumulative | K::Min | K::Max | K::WelfordOnline | K::WoMean | K::WoVar | K::Vst | K::Vsct | K::HLNormalizer | K::BinaryEntropy | K::CoG | K::Cti | K::Net => n,
        K::Rsi | K::MyRsi | K::Roc => n + 1,
        K::Alma | K::AlmaCustom => 2 * n,
        K::Pfe => {
            let ma = &s.kids[1];
            if !matches!(ma.k, K::Sma | K::Alma | K::AlmaCustom) || ma.kids[0].k != K::Echo {
                return None;
            }
            n + k_of(ma)? - 1
        }
        _ => return None,
    };
    if own == 0 {
        return None;
    }
    Some(own + k_of(&s.kids[0])? - 1)
}

/// output scale for the f64 tolerance
fn out_scale(s: &Spec, max_in: f64) -> f64 {
    match s.k {
        K::Echo | K::Probe => max_in,
        K::Min | K::Max | K::Sma | K::Alma | K::AlmaCustom => out_scale(&s.kids[0], max_in),
        K::Cumulative => s.n as f64 * out_scale(&s.kids[0], max_in),
        K::HLNormalizer | K::Net | K::Cti | K::Pfe | K::MyRsi => 2.0,
        K::BinaryEntropy => 1.0,
        K::Rsi => 100.0,
        K::CoG => s.n as f64,
        K::Roc => 100.0 * 1.0e4,
        _ => max_in,
    }
}

struct Pair<T> {
    a: Vec<Option<T>>,
    b: Vec<Option<T>>,
    truncated: bool,
}

/// exact arithmetic on a leaking view can make rationals grow without bound; the prefix is
/// "whatever preceded", so when the work meter passes this budget the rest of both prefixes is
/// simply not delivered (still a legal pair of histories, still a function of the scenario only)
const EXACT_PREFIX_BUDGET_BITS: u64 = 1_500_000;

/// run both replicas: prefixes then the common suffix, deliveries interleaved by `sched`
fn run_pair<T: Scalar>(spec: &Spec, pa: &[f64], pb: &[f64], suffix: &[f64], sched: &[u8]) -> Result<Pair<T>, &'static str> {
    let mut ctx = Ctx::default();
    let mut a = try_build::<T>(spec, &mut ctx).map_err(|_| "ctor_rejected")?;
    let mut b = try_build::<T>(spec, &mut ctx).map_err(|_| "ctor_rejected")?;
    let (la, lb) = (pa.len() + suffix.len(), pb.len() + suffix.len());
    let (mut ia, mut ib) = (0usize, 0usize);
    let mut oa: Vec<Option<T>> = Vec::with_capacity(suffix.len());
    let mut ob: Vec<Option<T>> = Vec::with_capacity(suffix.len());
    let mut si = 0usize;
    let mut truncated = false;
    while ia < la || ib < lb {
        if !truncated && (ia < pa.len() || ib < pb.len()) && T::work() > EXACT_PREFIX_BUDGET_BITS {
            truncated = true;
        }
        if truncated {
            ia = ia.max(pa.len());
            ib = ib.max(pb.len());
        }
        let pick_b = if ia >= la {
            true
        } else if ib >= lb {
            false
        } else {
            let bit = if sched.is_empty() { (si % 2) as u8 } else { sched[si % sched.len()] };
            si += 1;
            bit != 0
        };
        if pick_b {
            let v = if ib < pb.len() { pb[ib] } else { suffix[ib - pb.len()] };
            try_update(&mut b, T::of(v)).map_err(|_| "panic")?;
            if ib >= pb.len() {
                ob.push(try_last(&b).map_err(|_| "panic")?);
            }
            ib += 1;
        } else {
            let v = if ia < pa.len() { pa[ia] } else { suffix[ia - pa.len()] };
            try_update(&mut a, T::of(v)).map_err(|_| "panic")?;
            if ia >= pa.len() {
                oa.push(try_last(&a).map_err(|_| "panic")?);
            }
            ia += 1;
        }
    }
    Ok(Pair { a: oa, b: ob, truncated })
}

/// the property's two hold-exceptions, computed from the common suffix (never from the view):
/// is the comparison at suffix step s (1-based, s >= K) exempt for a root/inner of kind k?
fn exempt(spec: &Spec, suffix: &[f64], s: usize) -> bool {
    // only for a MyRsi / Roc that is fed the raw stream (directly over the leaf)
    let mut node = spec;
    loop {
        if node.k.arity() == 0 {
            return false;
        }
        if matches!(node.k, K::MyRsi | K::Roc) && node.kids[0].k.arity() == 0 {
            let n = node.n;
            if node.k == K::MyRsi {
                // flat window: the N most recent changes are all zero, i.e. the last N+1 values are equal
                if s >= n + 1 {
                    let w = &suffix[s - (n + 1)..s];
                    return w.iter().all(|x| *x == w[0]);
                }
                return true;
            } else {
                if s >= n + 1 {
                    return suffix[s - 1 - n] == 0.0;
                }
                return true;
            }
        }
        node = &node.kids[0];
    }
}

fn admissible(spec: &Spec) -> Result<(), String> {
    spec_valid(spec)?;
    if spec.k.arity() == 0 {
        return Err("no view".into());
    }
    let mut err = None;
    let mut depth = 0;
    let mut node = spec;
    loop {
        if node.k.arity() == 0 {
            break;
        }
        if !WINDOWED.contains(&node.k) {
            err = Some(format!("{} is not one of the property's windowed views", node.k.name()));
            break;
        }
        if node.k == K::Pfe && node.n < 3 {
            err = Some("PFE below its minimum window 3".into());
            break;
        }
        // hold-exceptions are only tractable when MyRsi/Roc read the raw stream
        if matches!(node.k, K::MyRsi | K::Roc) && node.kids[0].k.arity() != 0 {
            err = Some("MyRsi/Roc over another view: exemption not computable from the suffix".into());
            break;
        }
        depth += 1;
        node = &node.kids[0];
    }
    if depth > 2 {
        err = Some("chains deeper than 2".into());
    }
    if k_of(spec).is_none() {
        err = Some("no memory length defined".into());
    }
    match err {
        Some(e) => Err(e),
        None => Ok(()),
    }
}

/// conditioned suffix for chains whose inner view is MyRsi / Roc: the hold never occurs
fn suffix_conditioned_for(spec: &Spec, suffix: &[f64]) -> bool {
    let inner_is = |k: K| spec.any(&|s| s.k == k);
    let chain = spec.kids[0].k.arity() != 0;
    if !chain {
        return true;
    }
    if inner_is(K::MyRsi) && suffix.windows(2).any(|w| w[0] == w[1]) {
        return false;
    }
    if inner_is(K::Roc) && suffix.iter().any(|x| *x == 0.0) {
        return false;
    }
    true
}

fn gen_windowed(r: &mut Rng, k: K, n_max: usize, inner: Spec) -> Spec {
    let x = r.unit();
    let mut n = if x < 0.7 { r.range(1, 8) } else if x < 0.95 { r.range(9, 16) } else if x < 0.99 || k == K::Net { r.range(17, 64) } else { *r.pick(&[65usize, 100, 255, 256, 257, 300]) };
    n = n.min(n_max).max(1);
    let mut s = match k {
        K::Pfe => {
            n = n.max(3);
            let mk = *r.pick(&[K::Sma, K::Sma, K::Alma]);
            let ma = Spec::un(mk, r.range(1, 8), Spec::echo());
            Spec::with_ma(K::Pfe, n, inner, ma)
        }
        _ => Spec::un(k, n, inner),
    };
    gen_params(r, &mut s, false);
    s
}

impl Prop for C03 {
    fn id(&self) -> &'static str {
        "C03"
    }
    fn runs(&self, tier: Tier) -> u64 {
        match tier {
            Tier::Quick => 300_000,
            Tier::Thorough => 6_000_000,
        }
    }
    fn generate(&self, i: u64, r: &mut Rng, tier: Tier) -> Scenario {
        // one run in six decides in exact arithmetic (slower), the others confirm in f64
        let exact = i % 6 == 0;
        let mut sc = Scenario::new("C03", if exact { "exact" } else { "f64" });
        let pool: &[K] = if exact { WINDOWED } else { F64_OK };
        let k = pool[(i as usize / 6) % pool.len()];
        let n_max = if exact { 24 } else { 300 };
        // chains are decided in exact mode only: in f64 an outer normaliser over a smoothed inner signal can
        // amplify rounding residue of two honest histories (sign of a ~0 change), which is C16's subject
        let chain = exact && r.chance(0.5);
        let tree = if chain && !matches!(k, K::MyRsi | K::Roc) {
            let ki = *r.pick(pool);
            let inner = gen_windowed(r, ki, n_max.min(12), Spec::echo());
            gen_windowed(r, k, n_max.min(12), inner)
        } else {
            gen_windowed(r, k, n_max, Spec::echo())
        };
        let kk = k_of(&tree).expect("memory length");
        let n_sum = tree.window_sum();
        // exact mode: dyadic scale and values on a fine dyadic grid, so most rationals stay small
        // (2^-60 and 2^40 are there because 'all finite inputs' includes the very small and the very large)
        let s_scale = if exact { *r.pick(&[0.0009765625, 0.125, 1.0, 1.0, 1.0, 8.0, 1024.0, 8.673617379884035e-19, 1099511627776.0]) } else { *r.pick(&[0.1, 1.0, 1.0, 10.0]) };
        let quant = |v: &mut Vec<f64>| {
            if exact {
                for x in v.iter_mut() {
                    *x = (*x / s_scale * 64.0).round() / 64.0 * s_scale;
                }
            }
        };
        // common suffix: K .. K+3N values; degenerate shapes included (flat, two-valued, zero-laden, volatile-then-flat)
        let suf_len = kk + r.range(0, 3 * n_sum.max(1));
        let needs_conditioning = !exact && matches!(k, K::Rsi | K::MyRsi | K::Roc) || tree.kids[0].k.arity() != 0 && tree.any(&|s| matches!(s.k, K::MyRsi | K::Roc));
        let suffix: Vec<f64> = if needs_conditioning {
            // grid values with successive differences >= S/100 and no zeros: distinct neighbours
            let mut v = Vec::with_capacity(suf_len);
            let mut prev = 0i64;
            for _ in 0..suf_len {
                let mut g = r.range(1, 40) as i64;
                if g == prev {
                    g = if g < 40 { g + 1 } else { g - 1 };
                }
                prev = g;
                v.push(s_scale * (g as f64) * 0.05);
            }
            v
        } else {
            let shape = *r.pick(&[0u8, 0, 4, 5, 7, 11, 12, 13, 1, 8, 2, 3, 6, 9, 14]);
            // f64 mode: signed grid values with exact zeros of either sign, except for the ratio-of-sums views
            let pos = !exact && matches!(k, K::Rsi | K::MyRsi);
            gen_shape(r, shape, suf_len, s_scale, pos)
        };
        let mut suffix = suffix;
        quant(&mut suffix);
        // prefix: one base stream, an independent fault realisation per replica
        // "arbitrarily long" prefixes: 3% of runs carry thousands of values (a defect may need a long stream)
        let long = r.chance(0.03);
        let base_len = if long {
            if exact { r.range(3_000, 12_000) } else { r.range(5_000, 60_000) }
        } else if r.chance(0.05) {
            r.range(400, 1500)
        } else {
            r.range(0, 300)
        };
        let shape = r.below(SHAPES.len()) as u8;
        let f64_pos = !exact && matches!(k, K::Rsi | K::MyRsi);
        let base = gen_shape(r, shape, base_len, s_scale, f64_pos);
        let spike = if exact { if s_scale > 1e6 { 1e3 } else { *r.pick(&[1e3, 1e6, 1e12]) } } else { 20.0 };
        let extra = if exact { 300 } else { 500 };
        let ca = FaultCfg::swarm(r, extra, spike);
        let cb = FaultCfg::swarm(r, extra, spike);
        let (pa, fa) = apply_faults(r, &base, &ca, s_scale, f64_pos);
        let (pb, fb) = apply_faults(r, &base, &cb, s_scale, f64_pos);
        let (mut pa, mut pb) = (pa, pb);
        quant(&mut pa);
        quant(&mut pb);
        for f in [&fa, &fb] {
            sc.stat("drop", f.drop);
            sc.stat("dup", f.dup);
            sc.stat("swap", f.swap);
            sc.stat("corrupt", f.corrupt);
            sc.stat("spike", f.spike);
            sc.stat("extra_prefix", f.extra);
        }
        // ultra-long history for one replica (0.15% of runs): a compact generator feed instead of literal values
        let ultra = r.chance(0.0015);
        if ultra {
            // the four length classes equally often (f64), the three affordable ones in exact mode
            let len = match r.below(if exact { 3 } else { 4 }) {
                0 => r.range(4_200, 20_000),
                1 => r.range(66_000, 80_000),
                2 => r.range(132_000, 150_000),
                _ => r.range(1_050_000, 1_100_000),
            };
            let g = Feed::Gen { seed: r.next_u64(), shape: r.below(SHAPES.len()) as u8, len, scale: s_scale, positive: f64_pos, quant: if exact { s_scale / 64.0 } else { 0.0 } };
            sc.feeds.push(g);
            sc.stat("extra_prefix", len as u64);
        } else {
            sc.feeds.push(Feed::Lit(pa));
        }
        sc.feeds.push(Feed::Lit(pb));
        sc.feeds.push(Feed::Lit(suffix));
        let nb = r.range(1, 16);
        sc.sched = (0..nb).map(|_| r.below(2) as u8).collect();
        sc.trees.push(tree);
        sc
    }

    fn execute(&self, sc: &Scenario) -> RunOut {
        let mut out = RunOut::default();
        if sc.trees.is_empty() || sc.feeds.len() < 3 {
            out.invalid = Some("needs a tree and prefix_a, prefix_b, suffix".into());
            return out;
        }
        let spec = &sc.trees[0];
        if let Err(e) = admissible(spec) {
            out.invalid = Some(e);
            return out;
        }
        let exact = match sc.mode.as_str() {
            "exact" => true,
            "f64" => false,
            _ => {
                out.invalid = Some("mode".into());
                return out;
            }
        };
        let pa = sc.feeds[0].materialise();
        let pb = sc.feeds[1].materialise();
        let suffix = sc.feeds[2].materialise();
        let kk = k_of(spec).unwrap();
        if suffix.len() < kk {
            out.invalid = Some(format!("suffix shorter than K={}", kk));
            return out;
        }
        if pa.iter().chain(pb.iter()).chain(suffix.iter()).any(|x| !x.is_finite() || x.abs() > 1e30) {
            out.invalid = Some("non-finite or absurdly large input".into());
            return out;
        }
        if !suffix_conditioned_for(spec, &suffix) {
            out.invalid = Some("chain over MyRsi/Roc needs a suffix on which the hold never occurs".into());
            return out;
        }
        if !exact {
            // confirming mode: only views without error amplification, bounded dynamic range
            if spec.any(&|s| s.k.arity() > 0 && !F64_OK.contains(&s.k)) || spec.kids[0].k.arity() != 0 {
                out.invalid = Some("view not eligible for the f64 confirmation mode (single non-amplifying views only)".into());
                return out;
            }
            let all = pa.iter().chain(pb.iter()).chain(suffix.iter());
            let mx = all.clone().fold(0.0f64, |m, x| m.max(x.abs()));
            // (exact zeros do not count: they carry no rounding error)
            let mn = all.filter(|x| **x != 0.0).fold(f64::INFINITY, |m, x| m.min(x.abs()));
            // only the ratio-of-sums views need a bounded dynamic range; for the others the tolerance is absolute
            // (1e-6 of the largest magnitude), so small values are harmless
            if spec.any(&|s| matches!(s.k, K::Rsi | K::MyRsi)) && mx > 0.0 && mn < mx / 1.0e4 {
                out.invalid = Some("dynamic range above 1e4 in f64 mode".into());
                return out;
            }
            if pa.len() + suffix.len() > 1_300_000 || pb.len() + suffix.len() > 1_300_000 {
                out.invalid = Some("stream too long for f64 mode".into());
                return out;
            }
            if spec.any(&|s| matches!(s.k, K::Rsi | K::MyRsi | K::Roc)) {
                let mxs = suffix.iter().fold(0.0f64, |m, x| m.max(x.abs()));
                if suffix.windows(2).any(|w| (w[0] - w[1]).abs() < mxs / 100.0 * 0.999) {
                    out.invalid = Some("f64 mode needs a conditioned suffix (successive differences >= S/100) for the ratio-of-sums views".into());
                    return out;
                }
            }
        }
        let mut h = Fnv::new();
        let mut compared = 0u64;
        let mut exempted = 0u64;
        let mut skipped = 0u64;
        let mut viol: Option<(usize, String, String)> = None;
        let mut hold_viol: Option<(usize, String)> = None;
        let mut held_checked = 0u64;
        if exact {
            crate::q::arena_reset();
            match run_pair::<Q>(spec, &pa, &pb, &suffix, &sc.sched) {
                Err(why) => out.stats.hit(&format!("skip.{}", why)),
                Ok(p) => {
                    if p.truncated {
                        out.stats.hit("reach.exact_prefix_truncated_by_work_budget");
                    }
                    for s in kk..=suffix.len() {
                        let (x, y) = (p.a[s - 1], p.b[s - 1]);
                        h.opt(x.map(|q| q.to_f64_lossy()));
                        if exempt(spec, &suffix, s) {
                            exempted += 1;
                            // the exception only covers a view that *is holding its previous output*: verify the hold
                            if s >= 2 && s - 1 >= kk.saturating_sub(1).max(1) {
                                for (who, o) in [("A", &p.a), ("B", &p.b)] {
                                    let (prev, cur) = (o[s - 2], o[s - 1]);
                                    let same = match (prev, cur) {
                                        (None, None) => true,
                                        (Some(a), Some(b)) => a == b,
                                        _ => false,
                                    };
                                    held_checked += 1;
                                    if !same && hold_viol.is_none() {
                                        let sh = |o: Option<Q>| o.map(|q| q.show()).unwrap_or("None".into());
                                        hold_viol = Some((s, format!("replica {} reported {} at clean step {} and {} at step {} although its ratio is 0/0 there (must hold the previous output)", who, sh(prev), s - 1, sh(cur), s)));
                                    }
                                }
                            }
                            continue;
                        }
                        let nonfinite = |o: Option<Q>| o.map(|q| !q.is_finite()).unwrap_or(false);
                        if nonfinite(x) || nonfinite(y) {
                            skipped += 1;
                            continue;
                        }
                        compared += 1;
                        let eq = match (x, y) {
                            (None, None) => true,
                            (Some(a), Some(b)) => a == b,
                            _ => false,
                        };
                        if !eq && viol.is_none() {
                            let sh = |o: Option<Q>| o.map(|q| q.show()).unwrap_or("None".into());
                            viol = Some((s, sh(x), sh(y)));
                        }
                    }
                    out.stats.add("q_arena_entries", crate::q::arena_len() as u64);
                    if std::env::var("VERIF_METER").is_ok() {
                        eprintln!("METER {} {} {:?}", crate::q::meter(), spec.show(), sc.feeds.iter().map(|f| f.len()).collect::<Vec<_>>());
                    }
                }
            }
            crate::q::arena_reset();
        } else {
            match run_pair::<f64>(spec, &pa, &pb, &suffix, &sc.sched) {
                Err(why) => out.stats.hit(&format!("skip.{}", why)),
                Ok(p) => {
                    let max_in = pa.iter().chain(pb.iter()).chain(suffix.iter()).fold(0.0f64, |m, x| m.max(x.abs())).max(1e-300);
                    let tol = 1e-6 * out_scale(spec, max_in);
                    for s in kk..=suffix.len() {
                        let (x, y) = (p.a[s - 1], p.b[s - 1]);
                        h.opt(x);
                        if exempt(spec, &suffix, s) {
                            exempted += 1;
                            if s >= 2 && spec.k == K::Roc {
                                for (who, o) in [("A", &p.a), ("B", &p.b)] {
                                    let (prev, cur) = (o[s - 2], o[s - 1]);
                                    held_checked += 1;
                                    if prev.map(f64::to_bits) != cur.map(f64::to_bits) && hold_viol.is_none() {
                                        hold_viol = Some((s, format!("replica {} reported {:?} at clean step {} and {:?} at step {} although its base is 0 there (must hold the previous output)", who, prev, s - 1, cur, s)));
                                    }
                                }
                            }
                            continue;
                        }
                        let nonfinite = |o: Option<f64>| o.map(|q| !q.is_finite()).unwrap_or(false);
                        if nonfinite(x) || nonfinite(y) {
                            skipped += 1;
                            continue;
                        }
                        compared += 1;
                        let ok = match (x, y) {
                            (None, None) => true,
                            (Some(a), Some(b)) => (a - b).abs() <= tol,
                            _ => false,
                        };
                        if !ok && viol.is_none() {
                            viol = Some((s, format!("{:?}", x), format!("{:?} (tolerance {:e})", y, tol)));
                        }
                    }
                }
            }
        }
        out.hist = h.0;
        out.stats.add("deliveries", (pa.len() + pb.len() + 2 * suffix.len()) as u64);
        out.stats.add(if exact { "oracle.steps_compared_exact" } else { "oracle.steps_compared_f64" }, compared);
        out.stats.add("skip.steps_exempt_hold", exempted);
        out.stats.add("skip.steps_nonfinite", skipped);
        if exact {
            out.stats.hit("runs.exact");
        } else {
            out.stats.hit("runs.f64");
        }
        if pa != pb {
            out.stats.hit("reach.prefixes_differ");
            if compared > 0 {
                out.nontrivial = true;
            }
        }
        if pa.len() != pb.len() {
            out.stats.hit("reach.prefix_lengths_differ");
        }
        if pa.is_empty() || pb.is_empty() {
            out.stats.hit("reach.one_replica_without_prefix");
        }
        if pa.len().max(pb.len()) >= 1000 {
            out.stats.hit("reach.prefix_1000_plus");
        }
        if pa.len().max(pb.len()) >= 5000 {
            out.stats.hit("reach.prefix_5000_plus");
        }
        if pa.len().max(pb.len()) >= 66_000 {
            out.stats.hit("reach.prefix_66k_plus");
        }
        if pa.len().max(pb.len()) >= 1_050_000 {
            out.stats.hit("reach.prefix_1M_plus");
        }
        if suffix.windows(2).all(|w| w[0] == w[1]) && suffix.len() > 1 {
            out.stats.hit("reach.flat_suffix");
        }
        if spec.kids[0].k.arity() != 0 {
            out.stats.hit("reach.two_level_chain");
        }
        out.stats.add("oracle.hold_steps_verified", held_checked);
        if viol.is_none() {
            if let Some((s, what)) = hold_viol {
                out.violation = Some(Violation::new("hold_not_held", spec.k.name(), s, format!("{} (K={}): {}", spec.show(), kk, what)));
                return out;
            }
        }
        if let Some((s, x, y)) = viol {
            // culprit for chains: innermost node that leaks on its own
            let mut key = spec.k.name().to_string();
            if spec.kids[0].k.arity() != 0 {
                let mut solo = spec.kids[0].clone();
                solo.kids[0] = Spec::echo();
                let mut sc2 = sc.clone();
                sc2.trees[0] = solo.clone();
                let o2 = self.execute(&sc2);
                if o2.violation.is_some() {
                    key = solo.k.name().to_string();
                }
            }
            if spec.k == K::Pfe || key == "Pfe" {
                key = format!("{}/{}", key, spec.kids.get(1).map(|m| m.k.name()).unwrap_or(""));
            }
            out.violation = Some(Violation::new(
                if exact { "memory_leak_exact" } else { "memory_leak_f64" },
                key,
                s,
                format!(
                    "{} (K={}): after {} common clean values the replica with the {}-value faulted prefix reports {} but the one with the {}-value prefix reports {}",
                    spec.show(),
                    kk,
                    s,
                    pa.len(),
                    x,
                    pb.len(),
                    y
                ),
            ));
        }
        out
    }

    fn rule(&self) -> String {
        "Views cycle systematically through Sma, Cumulative, Min, Max, Roc, WelfordOnline (last, mean(), variance()), Vst, Vsct, HLNormalizer, BinaryEntropy, CenterOfGravity, CorrelationTrendIndicator, NoiseEliminationTechnology, Rsi, MyRSI, Alma (default and custom), PFE over {Sma, Alma}; half of the exact-mode runs are two-level chains of them (K = K_outer + K_inner - 1). Two replicas of the same tree: one base stream (0-300 values, 5% 400-1500, 3% 3 000-60 000; 0.15% of runs give one replica a generated history of 4.2k-20k, 66-80k, 132-150k or (f64 mode) 1.05-1.1M values) gets an independent fault realisation per replica (drop, duplicate, reorder, corrupt, spike bursts up to 1e12 S in exact mode, up to 300/500 extra prefix values), then both receive the same clean suffix of K..K+3N values (grid with ties, flat, two-valued, zero-laden, zero-sum, volatile-then-flat, random walk, step); deliveries of the two replicas are interleaved by a random bit schedule. K = N; N+1 for Rsi, MyRSI, Roc; 2N for Alma; N+K(ma)-1 for PFE. Oracle: at every suffix step s >= K the two outputs are equal. One run in six is executed with the library instantiated at the exact scalar Q (rational arithmetic; no tolerance) and decides; the others run at f64 for the views without error amplification (tolerance 1e-6 of the output scale, dynamic range <= 1e4, conditioned suffix for Rsi/MyRSI/Roc). Steps where MyRSI's N most recent changes are all zero or Roc's base is 0 are exempt from the comparison (computed from the suffix), but there the exception is verified instead: each replica must report exactly its own previous output. distinct = distinct (topology, feed lengths, schedule bits); non-trivial = the two prefixes differ and at least one step was compared."
            .into()
    }
    fn assumptions(&self) -> Vec<String> {
        vec![
            "'up to rounding' is read as 'in real arithmetic': the exact mode routes sqrt/exp/ln/log2 through f64 as a deterministic function of the exact argument, so equal exact states give equal outputs".into(),
            "f64 mode runs single views only and excludes WelfordOnline, Vst, Vsct (subtractive m2 downdate has condition number (mean/std)^2) and Alma::new_custom (steady-state weight can be 1e-16 of the start-up weights: cancellation); bounding those errors is C16's subject. They, and all two-level chains, are decided in exact mode".into(),
            "MyRSI / Roc are only placed directly over the raw stream, so that the hold-exception is computable from the suffix".into(),
            "PFE from its minimum window 3; a panic or constructor rejection ends the run (counted as skipped)".into(),
        ]
    }
    fn must_reach(&self, t: Tier) -> Vec<&'static str> {
        let mut v = vec!["reach.prefixes_differ", "reach.prefix_lengths_differ", "reach.one_replica_without_prefix", "reach.prefix_1000_plus", "reach.prefix_5000_plus", "reach.prefix_66k_plus", "reach.flat_suffix", "oracle.hold_steps_verified", "fault.drop", "fault.dup", "fault.swap", "fault.corrupt", "fault.spike", "fault.extra_prefix", "oracle.steps_compared_exact", "oracle.steps_compared_f64", "skip.steps_exempt_hold"];
        let _ = t;
        v.push("reach.two_level_chain");
        v
    }
}
