//! C01 — chaining: exactly-once in-order delivery to every leaf, refinement of the composed chain
//! by its node-by-node decomposition, and gating of the binary combinators.

use super::common::*;
use super::*;
use crate::dynview::{Ctx, EVENT_NO};
use crate::engine::*;
use crate::feed::{gen_shape, SCALES, SHAPES};
use crate::gen::*;
use crate::rng::Fnv;
use crate::scenario::{Ev, Scenario};
use crate::spec::{Spec, BINARY, K};
use std::sync::Arc;

pub struct C01;

type Outs = Vec<Option<f64>>;

enum Fail {
    Panic,
    V(Violation),
}

/// run a stand-alone instance of `spec` over the raw values; output after every delivery
fn run_raw(spec: &Spec, vals: &[f64], ctx: &mut Ctx) -> Result<Outs, Fail> {
    let mut v = try_build::<f64>(spec, ctx).map_err(|_| Fail::Panic)?;
    let mut o = Vec::with_capacity(vals.len());
    for x in vals {
        try_update(&mut v, *x).map_err(|_| Fail::Panic)?;
        o.push(try_last(&v).map_err(|_| Fail::Panic)?);
    }
    Ok(o)
}

/// feed `inner_out[t]` into a stand-alone `outer` only at steps where it is Some; read last() at every step
fn run_gated(outer: &Spec, inner_out: &Outs, ctx: &mut Ctx) -> Result<Outs, Fail> {
    let mut v = try_build::<f64>(outer, ctx).map_err(|_| Fail::Panic)?;
    let mut o = Vec::with_capacity(inner_out.len());
    for x in inner_out {
        if let Some(x) = x {
            try_update(&mut v, *x).map_err(|_| Fail::Panic)?;
        }
        o.push(try_last(&v).map_err(|_| Fail::Panic)?);
    }
    Ok(o)
}

fn bits(o: Option<f64>) -> Option<u64> {
    o.map(f64::to_bits)
}

fn first_diff(a: &Outs, b: &Outs) -> Option<usize> {
    (0..a.len().min(b.len())).find(|&t| bits(a[t]) != bits(b[t]))
}

/// Refinement of `spec` (whose composed outputs over `vals` are `comp`) by its decomposition, recursively.
fn verify(spec: &Spec, vals: &[f64], comp: &Outs, st: &mut Stats, level: usize) -> Result<(), Fail> {
    match spec.k.arity() {
        0 => Ok(()),
        1 => verify_unary(spec, vals, comp, st, level),
        _ if matches!(spec.k, K::Pfe | K::Eft) => verify_unary(spec, vals, comp, st, level),
        _ => {
            // binary combinator
            let mut ctx = Ctx::default();
            let a = run_raw(&spec.kids[0], vals, &mut ctx)?;
            let b = run_raw(&spec.kids[1], vals, &mut ctx)?;
            for t in 0..vals.len() {
                st.hit("oracle.gating");
                let both = a[t].is_some() && b[t].is_some();
                if a[t].is_some() != b[t].is_some() {
                    st.hit("reach.one_child_ready_only");
                }
                if comp[t].is_some() != both {
                    return Err(Fail::V(Violation::new(
                        "gating",
                        spec.k.name(),
                        t,
                        format!("{}: reports {:?} at delivery {} while children report a={:?} b={:?} (must be Some iff both are)", spec.show(), comp[t], t + 1, a[t], b[t]),
                    )));
                }
            }
            // the combiner over stubs that reproduce the children's outputs
            let mut ctx2 = Ctx::default();
            ctx2.scripts.push(Arc::new(a.clone()));
            ctx2.scripts.push(Arc::new(b.clone()));
            let stub = Spec { kids: vec![Spec { m: 0, ..Spec::leaf(K::Replay) }, Spec { m: 1, ..Spec::leaf(K::Replay) }], ..spec.clone() };
            let r = run_raw(&stub, vals, &mut ctx2)?;
            st.add("oracle.refinement_steps", vals.len() as u64);
            if let Some(t) = first_diff(comp, &r) {
                return Err(Fail::V(Violation::new(
                    "refinement",
                    spec.k.name(),
                    t,
                    format!("{}: composed output {:?} differs at delivery {} from the combiner over its stand-alone children's outputs {:?} (a={:?}, b={:?})", spec.show(), comp[t], t + 1, r[t], a[t], b[t]),
                )));
            }
            verify(&spec.kids[0], vals, &a, st, level + 1)?;
            verify(&spec.kids[1], vals, &b, st, level + 1)
        }
    }
}

fn verify_unary(spec: &Spec, vals: &[f64], comp: &Outs, st: &mut Stats, level: usize) -> Result<(), Fail> {
    let inner = &spec.kids[0];
    if inner.k == K::Echo {
        return Ok(()); // already stand-alone over Echo
    }
    // (a Constant leaf is decomposed too: it answers before the first update, which a wrapper must not exploit)
    let mut ctx = Ctx::default();
    let a = run_raw(inner, vals, &mut ctx)?;
    let mut outer = spec.clone();
    outer.kids[0] = Spec::echo();
    let b = run_gated(&outer, &a, &mut ctx)?;
    st.add("oracle.refinement_steps", vals.len() as u64);
    if a.iter().any(|x| x.is_none()) && a.iter().any(|x| x.is_some()) {
        st.hit("reach.inner_warmup_then_ready");
    }
    if let Some(t) = first_diff(comp, &b) {
        return Err(Fail::V(Violation::new(
            "refinement",
            spec.k.name(),
            t,
            format!(
                "{}: composed output {:?} differs at delivery {} from stand-alone {} fed the stand-alone inner output {:?}, which gives {:?}",
                spec.show(),
                comp[t],
                t + 1,
                outer.show(),
                a[t],
                b[t]
            ),
        )));
    }
    if level < 3 {
        verify(inner, vals, &a, st, level + 1)?;
    }
    Ok(())
}

impl C01 {
    fn n_pairs(&self) -> u64 {
        let w = wrappers().len() as u64;
        w * w
    }
}

fn probe_leaf(r: &mut Rng, n: usize, stalled: bool) -> Spec {
    Spec::probe(if stalled { r.range(1, 2 * n + 3) } else { 0 })
}

impl Prop for C01 {
    fn id(&self) -> &'static str {
        "C01"
    }
    fn runs(&self, tier: Tier) -> u64 {
        match tier {
            Tier::Quick => self.n_pairs() * 4 + self.n_pairs() * 4 + 150_000,
            Tier::Thorough => self.n_pairs() * 16 + self.n_pairs() * 4 * 4 + 4_000_000,
        }
    }
    fn generate(&self, i: u64, r: &mut Rng, tier: Tier) -> Scenario {
        let ws = wrappers();
        let nw = ws.len() as u64;
        let pairs = self.n_pairs();
        let reps = if tier == Tier::Quick { 4 } else { 16 };
        let bin_reps = if tier == Tier::Quick { 1 } else { 4 };
        let mut sc = Scenario::new("C01", "chain");
        let ma = |r: &mut Rng| {
            let k = crate::gen::pick_ma_kind(r);
            let n = r.range(1, 6);
            let mut m = Spec::un(k, n, if r.chance(0.2) { Spec::stall(r.range(1, 4), Spec::echo()) } else { Spec::echo() });
            gen_params(r, &mut m, false);
            m
        };
        let tree = if i < pairs * reps {
            // every unary wrapper over every inner view; rep selects window/stall setting
            let outer = ws[(i % nw) as usize];
            let inner = ws[((i / nw) % nw) as usize];
            let rep = i / pairs;
            let (no, ni) = match rep % 4 {
                0 => (3, 2),
                1 => (1, 1),
                2 => (r.range(1, 9), r.range(1, 9)),
                _ => (gen_n(r, 1000), gen_n(r, 1000)),
            };
            let stalled = rep % 2 == 1 || r.chance(0.3);
            let need_pos = matches!(outer, K::Drawdown | K::LnReturn);
            let m1 = ma(r);
            let l1 = probe_leaf(r, ni, stalled);
            let mut si = wrap(r, inner, ni, l1, Some(m1));
            gen_params(r, &mut si, need_pos);
            if need_pos && !si.positive() {
                let l2 = probe_leaf(r, ni, stalled);
                si = Spec::un(K::Sma, ni, l2);
            }
            let m2 = ma(r);
            wrap(r, outer, no, si, Some(m2))
        } else if i < pairs * reps + pairs * 4 * bin_reps {
            // every binary combinator over every pair of views
            let j = i - pairs * reps;
            let op = BINARY[(j % 4) as usize];
            let ka = ws[((j / 4) % nw) as usize];
            let kb = ws[((j / (4 * nw)) % nw) as usize];
            let na = r.range(1, 9);
            let nb = r.range(1, 9);
            let m1 = ma(r);
            let sa = r.chance(0.5);
            let la = probe_leaf(r, na, sa);
            let a = wrap(r, ka, na, la, Some(m1));
            let m2 = ma(r);
            let sb = r.chance(0.5);
            let lb = probe_leaf(r, nb, sb);
            let mut b = wrap(r, kb, nb, lb, Some(m2));
            if op == K::Div {
                gen_params(r, &mut b, true);
                if !b.positive() {
                    let sb2 = r.chance(0.5);
                    let kb2 = *r.pick(&[K::Sma, K::Ema, K::Min, K::Max, K::Alma]);
                    b = Spec::un(kb2, nb, probe_leaf(r, nb, sb2));
                }
            }
            let mut a = a;
            if a.needs_positive_feed() && !a.domain_ok_positive_feed() {
                let l3 = probe_leaf(r, na, false);
                a = Spec::un(K::Sma, na, l3);
            }
            Spec::bin(op, a, b)
        } else {
            let depth = r.range(2, 3);
            let cfg = TreeCfg { p_binary: 0.25, ..TreeCfg::full(depth, LeafMode::Probe) };
            loop {
                let t = gen_tree(r, &cfg, depth, 3, false, false);
                if t.domain_ok_positive_feed() && t.k.arity() > 0 && t.depth() >= 3 {
                    break t;
                }
            }
        };
        let sign = pick_feed_sign(r, std::slice::from_ref(&tree));
        let shape = crate::feed::shape_for(std::slice::from_ref(&tree), r.below(SHAPES.len()) as u8);
        let scale = crate::feed::pick_scale(r, !tree.needs_positive_feed() && !tree.contains(K::Mul));
        // mostly 50-400 values; 2% of runs are long, for logic that only engages after thousands of updates
        let len = if r.chance(0.012) { crate::feed::long_len(r) } else { r.range(50, 400) };
        let vals = crate::feed::gen_signed(r, shape, len, scale, sign);
        let p_obs = *r.pick(&[0.0, 0.2, 0.5]);
        let early = r.chance(0.3);
        sc.events = single_schedule(r, &vals, p_obs, early);
        sc.trees.push(tree);
        sc.set_int("shape", shape as i64);
        sc
    }

    fn execute(&self, sc: &Scenario) -> RunOut {
        let mut out = RunOut::default();
        if let Err(e) = domain_check(sc, MAX_MAG) {
            out.invalid = Some(e);
            return out;
        }
        if sc.trees.is_empty() || sc.trees[0].k.arity() == 0 {
            out.invalid = Some("no tree".into());
            return out;
        }
        let spec = &sc.trees[0];
        let mut h = Fnv::new();
        let mut ctx = Ctx::default();
        let mut root = match try_build::<f64>(spec, &mut ctx) {
            Ok(v) => v,
            Err(_) => {
                out.stats.hit("skip.ctor_rejected");
                return out;
            }
        };
        let probes = std::mem::take(&mut ctx.probes);
        let vals = delivered_values(sc, 0);
        let mut comp: Outs = Vec::with_capacity(vals.len());
        let mut deliveries = 0u64;
        if spec.any(&|s| (s.k == K::Probe || s.k == K::Stall) && s.m > 0) {
            out.stats.hit("reach.stalled_child");
            out.nontrivial = true;
        }
        if spec.any(&|s| BINARY.contains(&s.k)) {
            out.nontrivial = true;
        }
        EVENT_NO.with(|e| e.set(u64::MAX));
        'ev: for (step, e) in sc.events.iter().enumerate() {
            match *e {
                Ev::D { v, .. } => {
                    EVENT_NO.with(|e| e.set(deliveries));
                    if try_update(&mut root, v).is_err() {
                        out.stats.hit("skip.panic");
                        out.hist = h.0;
                        return out;
                    }
                    // after the update every last() belongs to the same delivery number: a leaf that is
                    // delivered to again (e.g. from last()) shows up as a duplicate entry
                    let o = match try_last(&root) {
                        Ok(o) => o,
                        Err(_) => {
                            out.stats.hit("skip.panic");
                            out.hist = h.0;
                            return out;
                        }
                    };
                    h.opt(o);
                    comp.push(o);
                    deliveries += 1;
                    out.stats.hit("ev.deliver");
                    // oracle 1: delivery log of every raw-input leaf == feed so far, exactly once, in order
                    for (pi, p) in probes.iter().enumerate() {
                        let log = p.lock().unwrap();
                        out.stats.hit("oracle.delivery_log");
                        let ok = log.len() as u64 == deliveries && log.last().map(|(ev, b)| *ev == deliveries - 1 && *b == v.to_bits()).unwrap_or(false);
                        if !ok {
                            let what = if (log.len() as u64) < deliveries {
                                "missed a delivery"
                            } else if log.len() as u64 > deliveries {
                                "was delivered to more than once"
                            } else {
                                "received a different value"
                            };
                            out.violation = Some(Violation::new(
                                "delivery",
                                what,
                                step,
                                format!("{}: leaf #{} {} at delivery {} (log length {}, last entry {:?}, fed value bits {:016x})", spec.show(), pi, what, deliveries, log.len(), log.last(), v.to_bits()),
                            ));
                            break 'ev;
                        }
                    }
                }
                Ev::O { k, .. } => {
                    out.stats.add("ev.observe", k as u64);
                    for _ in 0..k {
                        match try_last(&root) {
                            Ok(o) => h.opt(o),
                            Err(_) => {
                                out.stats.hit("skip.panic");
                                out.hist = h.0;
                                return out;
                            }
                        }
                    }
                    for (pi, p) in probes.iter().enumerate() {
                        let log = p.lock().unwrap();
                        if log.len() as u64 != deliveries {
                            out.violation = Some(Violation::new("delivery", "delivered during last()", step, format!("{}: leaf #{} log length {} after {} deliveries: a last() call delivered a value", spec.show(), pi, log.len(), deliveries)));
                            break 'ev;
                        }
                    }
                }
                _ => {}
            }
        }
        out.stats.add("deliveries", deliveries);
        // whole-log comparison (order)
        if out.violation.is_none() {
            for (pi, p) in probes.iter().enumerate() {
                let log = p.lock().unwrap();
                for (t, (ev, b)) in log.iter().enumerate() {
                    if *ev != t as u64 || *b != vals[t].to_bits() {
                        out.violation = Some(Violation::new("delivery", "order", t, format!("{}: leaf #{} log entry {} is (event {}, bits {:016x}), expected (event {}, bits {:016x})", spec.show(), pi, t, ev, b, t, vals[t].to_bits())));
                        break;
                    }
                }
            }
        }
        let _ = try_drop(root);
        // oracle 2 + 3: refinement by the decomposed pipeline and gating, at every level
        if out.violation.is_none() {
            let vals = &vals[..comp.len()];
            match verify(spec, vals, &comp, &mut out.stats, 0) {
                Ok(()) => {}
                Err(Fail::Panic) => out.stats.hit("skip.panic"),
                Err(Fail::V(v)) => out.violation = Some(v),
            }
        }
        out.hist = h.0;
        out
    }

    fn rule(&self) -> String {
        "Block 1: every one of the 34 wrappers (32 unary views, PFE, EFT) over every one of the 34 as a two-level chain, repeated with window settings (3,2), (1,1), random 1..9, random 1..64 and with/without a stalled leaf. Block 2: each of Add/Subtract/Multiply/Divide over every ordered pair of wrappers (children stalled independently, so one child is ready long before the other). Block 3: random trees of depth 2-3 (25% combinators, stalled leaves and inner Stall nodes). Leaves in view positions are Probe stubs (Echo semantics + delivery log). One feed of 50-400 values (1.2% of runs are long: 4 200-20 000, 66-80k, 132-150k or 1.05-1.1M values) in 14 workload shapes with extra and early last() calls interleaved. Oracles: per delivery, every probe's log has exactly one new entry carrying the current event number and the fed bit pattern; at the end, for every level of the tree, the composed output sequence is bit-identical to: stand-alone inner subtree -> (only when it has an output) stand-alone outer node built over Echo; for combinators Some iff both stand-alone children are Some, and bit-identical to the combinator over Replay stubs of its children's outputs. distinct = distinct (topology, event-kind schedule); non-trivial = the tree has a stalled child or a combinator."
            .into()
    }
    fn assumptions(&self) -> Vec<String> {
        vec![
            "inputs finite, magnitude 0 or within [1e-3,1e7], positive where the tree needs it".into(),
            "bit-identity is sound because composed chain and decomposed pipeline execute the same monomorphised f64 code (every inner view is a Dyn box in both)".into(),
            "a panic anywhere ends the run (skipped.panic): crashes belong to C15".into(),
        ]
    }
    fn must_reach(&self, _t: Tier) -> Vec<&'static str> {
        vec!["reach.stalled_child", "reach.one_child_ready_only", "reach.inner_warmup_then_ready", "oracle.gating", "oracle.delivery_log", "oracle.refinement_steps"]
    }
}
