//! Property interface: each claimed property provides a scenario generator and an executor/oracle.

use crate::rng::Rng;
use crate::scenario::Scenario;
use std::collections::BTreeMap;

pub mod common;
pub mod c01;
pub mod c03;
pub mod c08;
pub mod c09;
pub mod c15;
pub mod c17;
pub mod c18;

#[derive(Clone, Copy, PartialEq, Debug)]
pub enum Tier {
    Quick,
    Thorough,
}
impl Tier {
    pub fn name(self) -> &'static str {
        match self {
            Tier::Quick => "quick",
            Tier::Thorough => "thorough",
        }
    }
}

#[derive(Clone, Debug)]
pub struct Violation {
    /// violation class, e.g. "panic", "nonfinite", "readiness_reverted"
    pub class: String,
    /// finer root-cause key that must stay the same during minimisation (e.g. panic site)
    pub key: String,
    /// event / delivery index at which the oracle fired
    pub step: usize,
    pub detail: String,
}
impl Violation {
    pub fn new(class: &str, key: impl Into<String>, step: usize, detail: impl Into<String>) -> Violation {
        Violation { class: class.into(), key: key.into(), step, detail: detail.into() }
    }
    pub fn sig(&self) -> String {
        format!("{}|{}", self.class, self.key)
    }
}

#[derive(Clone, Debug, Default)]
pub struct Stats {
    /// additive counters (fired faults, event kinds, reach probes, oracle evaluations, skips)
    pub c: BTreeMap<String, u64>,
}
impl Stats {
    #[inline]
    pub fn add(&mut self, k: &str, by: u64) {
        if by == 0 {
            return;
        }
        if let Some(v) = self.c.get_mut(k) {
            *v += by;
        } else {
            self.c.insert(k.to_string(), by);
        }
    }
    #[inline]
    pub fn hit(&mut self, k: &str) {
        self.add(k, 1)
    }
    pub fn get(&self, k: &str) -> u64 {
        self.c.get(k).copied().unwrap_or(0)
    }
    pub fn merge(&mut self, o: &Stats) {
        for (k, v) in &o.c {
            self.add(k, *v);
        }
    }
}

#[derive(Clone, Debug, Default)]
pub struct RunOut {
    pub violation: Option<Violation>,
    /// scenario outside the property's domain (only reachable through minimisation / hand-edited replays)
    pub invalid: Option<String>,
    pub stats: Stats,
    /// FNV hash over every event and observed bit pattern of the run
    pub hist: u64,
    /// a fault / stall / fork / migrate fired and the oracle was evaluated after it
    pub nontrivial: bool,
}

pub trait Prop: Sync + Send {
    fn id(&self) -> &'static str;
    /// number of runs in the tier (fixed counts: the explored set is a function of the seed only)
    fn runs(&self, tier: Tier) -> u64;
    /// scenario of run `i`; all choices come from `rng` (which is derived from VERIF_SEED, id, i)
    fn generate(&self, i: u64, rng: &mut Rng, tier: Tier) -> Scenario;
    fn execute(&self, sc: &Scenario) -> RunOut;
    fn rule(&self) -> String;
    fn assumptions(&self) -> Vec<String>;
    /// names of stats counters that must be > 0 in a healthy batch (reach probes)
    fn must_reach(&self, _tier: Tier) -> Vec<&'static str> {
        vec![]
    }
    /// must every run of the search execute on a fresh OS thread? (C17: yes — hidden thread-local state
    /// is its subject; the others run on pooled workers and only *confirm* a violation on a fresh thread)
    fn hermetic(&self) -> bool {
        false
    }
    /// extra whole-batch scenarios executed once after the seeded search (e.g. cross-process comparison)
    fn post_batch(&self, _seed: u64, _total: u64, _tier: Tier) -> Vec<Scenario> {
        vec![]
    }
}

/// per-run history hashes of the first runs of a hermetic (C17) batch, as computed in the long-lived main
/// process; the cross-process scenario compares them with what short-lived child processes compute
pub static MAIN_HISTS: std::sync::Mutex<Option<Vec<(u64, u64)>>> = std::sync::Mutex::new(None);
pub const MAIN_HISTS_MAX: u64 = 40_000;

pub fn registry() -> Vec<Box<dyn Prop>> {
    vec![Box::new(c01::C01), Box::new(c03::C03), Box::new(c08::C08), Box::new(c09::C09), Box::new(c15::C15), Box::new(c17::C17), Box::new(c18::C18)]
}

pub fn find(id: &str) -> Option<Box<dyn Prop>> {
    registry().into_iter().find(|p| p.id() == id)
}

/// Which components ran real code and which ran a stub (reported in every evidence file).
pub fn components() -> serde_json::Value {
    serde_json::json!({
        "real": "every view: all of sliding_features::{pure_functions, rolling, sliding_windows}, compiled from /repo's working tree and instantiated at f64 (at the exact scalar Q for C03's deciding mode; at f32 in one run in eight of C08 and C15)",
        "stub": ["Dyn (boxing adapter that forwards update/last/clone)", "Probe (Echo semantics + delivery log)", "Stall (withholds a child's first d outputs)", "Replay (plays back a recorded child output sequence)", "WoMean/WoVar (expose WelfordOnline::mean/variance as a view output)", "feed generator and fault injector", "exact scalar Q (C03 only)", "counting global allocator (C18 only)"],
    })
}
