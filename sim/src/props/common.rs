//! Helpers shared by the f64 properties: domain validation, schedule building.

use crate::rng::Rng;
use crate::scenario::{Ev, Scenario};
use crate::spec::{Spec, K};

pub const MAX_MAG: f64 = 1.0e7;

/// Parameters inside what the constructors document / the properties quantify over.
pub fn spec_valid(s: &Spec) -> Result<(), String> {
    let mut err: Option<String> = None;
    s.walk(&mut |x| {
        if err.is_some() {
            return;
        }
        if x.k.has_n() && x.n < 1 {
            err = Some(format!("{}: window length 0 is outside N>=1", x.k.name()));
        }
        if x.k.has_n() && x.n > 100_000 {
            err = Some("window too large".into());
        }
        match x.k {
            K::Roofing if x.m < 1 => err = Some("Roofing: super smoother length 0".into()),
            K::LaguerreFilter if !(x.p >= 0.0 && x.p < 1.0) => err = Some("LaguerreFilter: gamma outside [0,1)".into()),
            K::AlmaCustom if !(x.p > 0.0 && x.p.is_finite() && x.q.is_finite() && x.q >= 0.0 && x.q <= 1.0) => err = Some("Alma: sigma/offset outside range".into()),
            K::EmaAlpha if !(x.p > 0.0 && x.p <= x.n as f64 + 1.0) => err = Some("Ema: alpha outside (0,N+1]".into()),
            K::Gte | K::Lte | K::Const if !x.p.is_finite() || x.p.abs() > MAX_MAG => err = Some("clip/constant not finite or too large".into()),
            K::Replay => err = Some("Replay leaf is internal".into()),
            _ => {}
        }
    });
    match err {
        Some(e) => Err(e),
        None => Ok(()),
    }
}

/// Is the scenario inside the domain every f64 property is conditioned on?
/// finite inputs of moderate magnitude; positive where the tree needs it.
pub fn domain_check(sc: &Scenario, max_mag: f64) -> Result<(), String> {
    use crate::spec::Sign;
    let mut need = Sign::Any;
    for t in &sc.trees {
        spec_valid(t)?;
        match t.feed_sign() {
            Some(s) => need = need.max(s),
            None => return Err("a Drawdown/LnReturn/divisor position is fed by a view that is not positivity-preserving".into()),
        }
    }
    let need_pos = need == Sign::Positive;
    let need_nonneg = need == Sign::NonNeg;
    let chk = |v: f64| -> Result<(), String> {
        if !v.is_finite() {
            return Err("non-finite input".into());
        }
        if v.abs() > max_mag {
            return Err("input magnitude outside the moderate range".into());
        }
        if need_pos && !(v > 0.0) {
            return Err("non-positive input for a tree that needs a positive feed".into());
        }
        if need_nonneg && !(v >= 0.0) {
            return Err("negative input for a tree that needs a non-negative feed".into());
        }
        Ok(())
    };
    for e in &sc.events {
        if let Ev::D { v, .. } = e {
            chk(*v)?;
        }
    }
    for f in &sc.feeds {
        if let crate::scenario::Feed::Lit(vs) = f {
            for v in vs {
                chk(*v)?;
            }
        }
        if let crate::scenario::Feed::Gen { scale, positive, .. } = f {
            if !scale.is_finite() || scale.abs() * 4.25 > max_mag {
                return Err("generator scale outside the moderate range".into());
            }
            if (need_pos || need_nonneg) && !*positive {
                return Err("generator not positive for a tree that needs a positive feed".into());
            }
        }
    }
    Ok(())
}

/// Single-replica schedule: deliveries of `vals` interleaved with observations.
/// `p_obs`: probability of an extra Observe after a delivery (k in 1..=5).
pub fn single_schedule(r: &mut Rng, vals: &[f64], p_obs: f64, early_last: bool) -> Vec<Ev> {
    let mut ev = Vec::with_capacity(vals.len() + 8);
    if early_last {
        ev.push(Ev::O { r: 0, k: 1 + r.below(3) as u8 });
    }
    for v in vals {
        ev.push(Ev::D { r: 0, v: *v, tag: 0 });
        if p_obs > 0.0 && r.chance(p_obs) {
            ev.push(Ev::O { r: 0, k: 1 + r.below(5) as u8 });
        }
    }
    ev
}

#[derive(Clone, Copy, PartialEq, Debug)]
pub enum Symptom {
    NonFinite,
    Reverted,
    Panic,
}

/// Diagnosis for grouping: the deepest subtree (post-order, view positions only) that shows the
/// symptom on its own when fed the same raw values. Returns its kind name (with window class).
pub fn culprit(spec: &Spec, vals: &[f64], sym: Symptom) -> String {
    culprit_t::<f64>(spec, vals, sym)
}

/// the same diagnosis with the trees instantiated at scalar type T
pub fn culprit_t<T: crate::dynview::Scalar>(spec: &Spec, vals: &[f64], sym: Symptom) -> String {
    fn shows<T: crate::dynview::Scalar>(spec: &Spec, vals: &[f64], sym: Symptom) -> bool {
        let mut ctx = crate::dynview::Ctx::default();
        let mut v = match crate::engine::try_build::<T>(spec, &mut ctx) {
            Ok(v) => v,
            Err(_) => return false,
        };
        let mut ready = false;
        for x in vals {
            if crate::engine::try_update(&mut v, T::of(*x)).is_err() {
                return sym == Symptom::Panic;
            }
            match crate::engine::try_last(&v) {
                Err(_) => return sym == Symptom::Panic,
                Ok(Some(o)) => {
                    if !o.is_finite() && sym == Symptom::NonFinite {
                        return true;
                    }
                    ready = true;
                }
                Ok(None) => {
                    if ready && sym == Symptom::Reverted {
                        return true;
                    }
                }
            }
        }
        false
    }
    fn go<T: crate::dynview::Scalar>(spec: &Spec, vals: &[f64], sym: Symptom) -> Option<String> {
        let view_kids: &[Spec] = match spec.k {
            K::Pfe | K::Eft => &spec.kids[..1],
            _ => &spec.kids[..],
        };
        for k in view_kids {
            if let Some(c) = go::<T>(k, vals, sym) {
                return Some(c);
            }
        }
        if spec.k.arity() > 0 && shows::<T>(spec, vals, sym) {
            let ncls = if !spec.k.has_n() { String::new() } else if spec.n <= 3 { format!("[n={}]", spec.n) } else { "[n>3]".to_string() };
            return Some(format!("{}{}", spec.k.name(), ncls));
        }
        None
    }
    go::<T>(spec, vals, sym).unwrap_or_else(|| "?".into())
}

pub fn delivered_values(sc: &Scenario, r: u8) -> Vec<f64> {
    sc.events.iter().filter_map(|e| if let Ev::D { r: rr, v, .. } = e { if *rr == r { Some(*v) } else { None } } else { None }).collect()
}

/// Largest magnitude any node of a tree may be *fed* for the run to count as "finite input of moderate
/// magnitude": products and squares of larger values overflow f64 by construction (1e100^2 is still
/// finite, 1e155^2 is not). There is no lower bound: a tiny non-zero value is an ordinary number.
pub const MAX_NODE_INPUT: f64 = 1.0e100;

/// Triage of a non-finite value or a panic: find the deepest subtree that shows the symptom on its own
/// and ask whether one of its children (stand-alone, same raw values) fed it a value beyond
/// MAX_NODE_INPUT. If so the run left the property's domain inside the chain (e.g. a rate of change over
/// a base of 1e-200 is 1e202 percent, and the standard deviation of that overflows) and is not a finding.
pub fn fed_immoderate_magnitude(spec: &Spec, vals: &[f64], sym: Symptom) -> bool {
    fed_immoderate_magnitude_t::<f64>(spec, vals, sym, MAX_NODE_INPUT)
}

/// the same for the instantiation at scalar type T, with that type's limit (f32: squares overflow beyond 1e19)
pub fn fed_immoderate_magnitude_t<T: crate::dynview::Scalar>(spec: &Spec, vals: &[f64], sym: Symptom, limit: f64) -> bool {
    fn outputs<T: crate::dynview::Scalar>(spec: &Spec, vals: &[f64]) -> Vec<f64> {
        let mut ctx = crate::dynview::Ctx::default();
        let mut out = vec![];
        let mut v = match crate::engine::try_build::<T>(spec, &mut ctx) {
            Ok(v) => v,
            Err(_) => return out,
        };
        for x in vals {
            if crate::engine::try_update(&mut v, T::of(*x)).is_err() {
                break;
            }
            match crate::engine::try_last(&v) {
                Ok(Some(o)) => out.push(o.f()),
                Ok(None) => {}
                Err(_) => break,
            }
        }
        out
    }
    let _ = sym;
    // any proper subtree (view positions) whose stand-alone output leaves the moderate range feeds an
    // immoderate value to the node above it; everything downstream of that is out of domain
    // Moderate magnitude has a lower end too for the one view whose output is an unbounded function of signed
    // inputs: CenterOfGravity divides by the plain sum of its window. A child that decays into the subnormal range
    // (a high-pass filter over thousands of identical values) hands it a sum of 1e-320 and the quotient overflows:
    // arithmetic range, not a defect (same reason as for the mixed-magnitude shape, which is not used with CoG).
    fn any_immoderate<T: crate::dynview::Scalar>(spec: &Spec, vals: &[f64], parent: Option<K>, limit: f64) -> bool {
        if spec.k.arity() == 0 {
            return false;
        }
        if parent.is_some() {
            let outs = outputs::<T>(spec, vals);
            if outs.iter().any(|o| o.is_finite() && o.abs() > limit) {
                return true;
            }
            if parent == Some(K::CoG) && outs.iter().any(|o| *o != 0.0 && o.abs() < 1.0 / limit) {
                return true;
            }
        }
        let view_kids: &[Spec] = match spec.k {
            K::Pfe | K::Eft => &spec.kids[..1],
            _ => &spec.kids[..],
        };
        view_kids.iter().any(|k| any_immoderate::<T>(k, vals, Some(spec.k), limit))
    }
    any_immoderate::<T>(spec, vals, None, limit)
}

/// does `spec` itself (not one of its view-position subtrees) show the symptom?
fn culprit_is_root(spec: &Spec, vals: &[f64], sym: Symptom) -> bool {
    let c = culprit(spec, vals, sym);
    c.starts_with(spec.k.name())
}

/// the feed class for a set of trees: the weakest the domain analysis allows, made stricter at random
/// (so trees that tolerate zeros are also exercised on strictly positive streams)
pub fn pick_feed_sign(r: &mut Rng, trees: &[Spec]) -> crate::spec::Sign {
    use crate::spec::Sign;
    let mut need = Sign::Any;
    for t in trees {
        need = need.max(t.feed_sign().unwrap_or(Sign::Positive));
    }
    match need {
        Sign::Any => Sign::Any,
        Sign::NonNeg => {
            if r.chance(0.3) { Sign::Positive } else { Sign::NonNeg }
        }
        Sign::Positive => Sign::Positive,
    }
}
