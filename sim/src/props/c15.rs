//! C15 — no panic under any call schedule (the crash of a node).

use super::common::*;
use super::*;
use crate::dynview::{Ctx, Dyn};
use crate::engine::*;
use crate::feed::{gen_shape, SCALES, SHAPES};
use crate::gen::*;
use crate::rng::Fnv;
use crate::scenario::{Ev, Scenario};
use crate::spec::{Spec, K};

pub struct C15;

const NS_QUICK: &[usize] = &[1, 2, 3, 4, 5, 6, 7, 8, 9, 16, 33, 64];

fn ma_for(r: &mut Rng) -> Spec {
    let k = crate::gen::pick_ma_kind(r);
    let n = r.range(1, 6);
    let mut m = Spec::un(k, n, Spec::echo());
    gen_params(r, &mut m, false);
    m
}

impl C15 {
    fn topology(&self, i: u64, r: &mut Rng, tier: Tier) -> (Spec, Option<u8>) {
        let ws = wrappers();
        let nw = ws.len() as u64;
        let ns: Vec<usize> = if tier == Tier::Quick { NS_QUICK.to_vec() } else { (1..=64).collect() };
        let n_ns = ns.len() as u64;
        let n_shapes = SHAPES.len() as u64;
        let singles = nw * n_ns * n_shapes;
        if i < singles {
            // every view alone, every N, every workload shape
            let k = ws[(i % nw) as usize];
            let n = ns[((i / nw) % n_ns) as usize];
            let shape = ((i / (nw * n_ns)) % n_shapes) as u8;
            let pos = matches!(k, K::Drawdown | K::LnReturn);
            let leaf = if r.chance(0.3) { Spec::stall(r.range(1, 2 * n + 3), Spec::echo()) } else { Spec::echo() };
            let ma = ma_for(r);
            let mut s = wrap(r, k, n, leaf, Some(ma));
            gen_params(r, &mut s, pos);
            return (s, Some(shape));
        }
        let j = i - singles;
        let pair_ns: &[(usize, usize)] = if tier == Tier::Quick { &[(1, 1), (2, 3), (3, 2), (5, 1)] } else { &[(1, 1), (1, 2), (2, 1), (2, 2), (2, 3), (3, 2), (3, 3), (5, 1), (1, 5), (4, 9), (9, 4), (16, 3)] };
        let pairs = nw * nw * pair_ns.len() as u64;
        if j < pairs {
            // every ordered pair as a two-level chain
            let outer = ws[(j % nw) as usize];
            let inner = ws[((j / nw) % nw) as usize];
            let (no, ni) = pair_ns[(j / (nw * nw)) as usize];
            let need_pos_inner = matches!(outer, K::Drawdown | K::LnReturn);
            let inner_k = if need_pos_inner && !Spec::un(inner, ni, Spec::echo()).positive() { K::Sma } else { inner };
            let leaf = if r.chance(0.3) { Spec::stall(r.range(1, 2 * ni + 3), Spec::echo()) } else { Spec::echo() };
            let ma_i = ma_for(r);
            let mut si = wrap(r, inner_k, ni, leaf, Some(ma_i));
            gen_params(r, &mut si, need_pos_inner);
            if need_pos_inner && !si.positive() {
                si = Spec::un(K::Sma, ni, Spec::echo());
            }
            let ma_o = ma_for(r);
            let so = wrap(r, outer, no, si, Some(ma_o));
            return (so, None);
        }
        // random trees: two-level chains mostly, some of depth 3, with combinators and stalls
        let depth = if r.chance(0.8) { 2 } else { 3 };
        let cfg = TreeCfg::full(depth, LeafMode::StallMix);
        loop {
            let t = gen_tree(r, &cfg, depth, 3, false, false);
            if t.domain_ok_positive_feed() && t.k.arity() > 0 {
                return (t, None);
            }
        }
    }
}

impl Prop for C15 {
    fn id(&self) -> &'static str {
        "C15"
    }
    fn runs(&self, tier: Tier) -> u64 {
        match tier {
            Tier::Quick => 300_000,
            Tier::Thorough => 6_000_000,
        }
    }
    fn generate(&self, i: u64, r: &mut Rng, tier: Tier) -> Scenario {
        let (tree, shape) = self.topology(i, r, tier);
        let mut sc = Scenario::new("C15", "calls");
        let sign = pick_feed_sign(r, std::slice::from_ref(&tree));
        let shape = crate::feed::shape_for(std::slice::from_ref(&tree), shape.unwrap_or_else(|| r.below(SHAPES.len()) as u8));
        // magnitudes {0} u [1e-3, 1e6]
        let scale = crate::feed::pick_scale(r, !tree.needs_positive_feed() && !tree.contains(K::Mul));
        let len = if r.chance(0.003) {
            // some panics need a long stream (a counter reaching a threshold, drift of running sums)
            crate::feed::long_len(r)
        } else if tier == Tier::Thorough && r.chance(0.03) {
            r.range(2_000, 10_000)
        } else {
            match r.below(10) {
                0 => r.range(1, 4),
                1..=6 => r.range(5, 120),
                _ => r.range(121, 600),
            }
        };
        let vals = crate::feed::gen_signed(r, shape, len, scale, sign);
        let p_obs = *r.pick(&[0.0, 0.1, 0.5]);
        let early = r.chance(0.5);
        let mut ev = single_schedule(r, &vals, p_obs, early);
        // "all interleavings of update and last": some deliveries are not followed by a last() at all
        let p_silent = *r.pick(&[0.0, 0.0, 0.5, 0.95]);
        if p_silent > 0.0 {
            for e in ev.iter_mut() {
                if let Ev::D { tag, .. } = e {
                    if r.chance(p_silent) {
                        *tag = crate::scenario::SILENT;
                    }
                }
            }
        }
        // clone / drop at random points (only if the tree is Clone)
        if tree.cloneable() && r.chance(0.4) {
            let n_forks = 1 + r.below(3);
            for _ in 0..n_forks {
                let at = r.below(ev.len() + 1);
                ev.insert(at, Ev::F { r: 0 });
            }
            // redirect some later deliveries to clones, and drop some replicas
            let mut live = 1u8;
            let mut out = Vec::with_capacity(ev.len() + 4);
            for e in ev {
                match e {
                    Ev::F { .. } => {
                        let src = r.below(live as usize) as u8;
                        out.push(Ev::F { r: src });
                        live += 1;
                    }
                    Ev::D { v, tag, .. } => {
                        let tgt = if r.chance(0.7) { 0 } else { r.below(live as usize) as u8 };
                        out.push(Ev::D { r: tgt, v, tag });
                        if live > 1 && r.chance(0.01) {
                            out.push(Ev::X { r: r.below(live as usize) as u8 });
                        }
                    }
                    Ev::O { k, .. } => out.push(Ev::O { r: r.below(live as usize) as u8, k }),
                    other => out.push(other),
                }
            }
            ev = out;
        }
        // one run in eight exercises the same generic code instantiated at f32 (moderate magnitudes only, so
        // that every value survives the conversion with its sign class)
        let f32_mode = r.chance(0.125) && scale >= 1e-4 && shape as usize % SHAPES.len() != 15 && f32_params_ok(&tree);
        if f32_mode {
            sc.mode = "calls_f32".into();
        }
        sc.trees.push(tree);
        sc.events = ev;
        sc.set_int("shape", shape as i64);
        sc
    }

    fn execute(&self, sc: &Scenario) -> RunOut {
        let mut out = RunOut::default();
        if let Err(e) = domain_check(sc, MAX_MAG) {
            out.invalid = Some(e);
            return out;
        }
        if sc.trees.is_empty() {
            out.invalid = Some("no tree".into());
            return out;
        }
        match sc.mode.as_str() {
            "calls_f32" => {
                // the generic code instantiated at f32: every delivered value must survive the conversion as a
                // finite value of moderate magnitude with its sign class intact
                let bad = sc.events.iter().any(|e| match *e {
                    Ev::D { v, .. } => v != 0.0 && !(v.abs() >= 1e-6 && v.abs() <= MAX_MAG),
                    _ => false,
                });
                if bad || !f32_params_ok(&sc.trees[0]) {
                    out.invalid = Some("f32 mode needs magnitudes in {0} u [1e-6, 1e7], an ALMA sigma <= 6, and LnReturn/Drawdown directly over the stream".into());
                    return out;
                }
                out.stats.hit("reach.instantiated_at_f32");
                run_calls::<f32>(sc, out, 1.0e15)
            }
            _ => run_calls::<f64>(sc, out, MAX_NODE_INPUT),
        }
    }
    fn rule(&self) -> String {
        "Run i<S1 enumerates every wrapper (32 unary views + PFE + EFT) alone at every N in the tier's list (quick: 1..9,16,33,64; thorough: 1..64) under each of the 14 workload shapes; the next block enumerates every ordered pair of wrappers as a two-level chain at several (N_outer,N_inner); the remaining runs are random trees (depth 2-3, combinators, stalled leaves). Everything else (secondary parameters, stall length, magnitude scale in {0} u [1e-3,1e6], stream length 1..600 (0.3% long: 4.2k-1.1M; thorough: a further slice up to 10^4), last() before the first update, repeated last(), clone and drop points) is drawn from the run's PRNG. A case is the pair (topology+parameters, event-kind schedule); distinct = distinct hash of that pair; non-trivial = a stall, an early or repeated last(), a clone or a drop fired and at least one delivery executed after it. The whole batch is executed by two builds of the same harness: debug assertions + overflow checks on, and both off. One run in eight (where the feed's magnitudes are 0 or within [1e-6,1e7] a custom ALMA has sigma <= 6, LnReturn and Drawdown sit directly on the stream and there is no Divide) executes the library's generic code instantiated at f32 instead of f64; the oracles are the same."
            .into()
    }
    fn assumptions(&self) -> Vec<String> {
        vec![
            "inputs are finite, of magnitude 0 or within [1e-3,1e7], positive where the tree contains Drawdown/LnReturn, and divisor positions hold positivity-preserving subtrees".into(),
            "a constructor that panics (rejects its arguments) is not a violation: the property is about constructed views".into(),
            "moderate magnitude holds for every node of a chain: a panic is not a finding when the panicking node had been fed a value beyond 1e100 by its own child; counted under skipped.immoderate_intermediate_magnitude".into(),
            "f32 runs: a custom ALMA keeps sigma <= 6 (the library's default): with a narrower Gaussian the weight of the first sample underflows to zero in f32 and the average is 0/0, exactly as it is in f64 beyond sigma ~ 27 - a limit of the parameter range, not of the call schedule; LnReturn/Drawdown only directly over the (positive) stream and no Divide, because 'an average of positive values is positive' does not survive f32 rounding of a running sum at a dynamic range of 1e6 (accuracy: C16); a value beyond 1e15 fed to a node by its own child counts as immoderate there (1e100 in f64)".into(),
            "secondary parameters stay in their documented ranges (gamma in [0,1), Ema weight alpha/(N+1) in (0,1], Alma sigma>0, offset in [0,1])".into(),
        ]
    }
    fn must_reach(&self, _t: Tier) -> Vec<&'static str> {
        vec!["reach.last_before_first_update", "reach.repeated_last", "reach.window_longer_than_stream", "reach.window_1_or_2", "ev.fork", "ev.drop", "reach.stalled_child", "reach.instantiated_at_f32"]
    }
}

/// the call schedule of a scenario against the trees instantiated at scalar type T
fn run_calls<T: crate::dynview::Scalar>(sc: &Scenario, mut out: RunOut, node_limit: f64) -> RunOut {
        let spec = &sc.trees[0];
        let st = &mut out.stats;
        let mut h = Fnv::new();
        let mut ctx = Ctx::default();
        let root = match try_build::<T>(spec, &mut ctx) {
            Ok(v) => v,
            Err(_) => {
                // a constructor that rejects its arguments is not a violation
                st.hit("ctor_rejected");
                return out;
            }
        };
        let has_stall = spec.contains(K::Stall);
        if has_stall {
            st.hit("reach.stalled_child");
        }
        let mut reps: Vec<Option<Dyn<T>>> = vec![Some(root)];
        let mut delivered = vec![0usize];
        let mut hist: Vec<Vec<f64>> = vec![vec![]];
        let mut viol_rep = 0usize;
        let mut special_before = false;
        let mut panic_at = |p: PanicInfo, step: usize, what: &str| -> Violation {
            if p.is_timeout() {
                return Violation::new("timeout", "", step, "run time budget exceeded");
            }
            Violation::new("panic", p.key(), step, format!("{} panicked: '{}' at {}", what, p.msg, p.loc))
        };
        for (step, e) in sc.events.iter().enumerate() {
            let r = e.replica() as usize;
            if r >= reps.len() || reps[r].is_none() {
                continue;
            }
            match *e {
                Ev::D { v, tag, .. } => {
                    let view = reps[r].as_mut().unwrap();
                    hist[r].push(v);
                    viol_rep = r;
                    if let Err(p) = try_update(view, T::of(v)) {
                        out.violation = Some(panic_at(p, step, "update"));
                        break;
                    }
                    delivered[r] += 1;
                    st.hit("ev.deliver");
                    if tag == crate::scenario::SILENT {
                        st.hit("ev.deliver_silent");
                        continue;
                    }
                    match try_last(view) {
                        Ok(o) => h.opt(o.map(|x| x.f())),
                        Err(p) => {
                            out.violation = Some(panic_at(p, step, "last"));
                            break;
                        }
                    }
                    if special_before || has_stall {
                        out.nontrivial = true;
                    }
                }
                Ev::O { k, .. } => {
                    let view = reps[r].as_ref().unwrap();
                    viol_rep = r;
                    if delivered[r] == 0 {
                        st.hit("reach.last_before_first_update");
                        special_before = true;
                    }
                    if k > 1 {
                        st.hit("reach.repeated_last");
                        special_before = true;
                    }
                    let mut bad = None;
                    for _ in 0..k {
                        match try_last(view) {
                            Ok(o) => h.opt(o.map(|x| x.f())),
                            Err(p) => {
                                bad = Some(p);
                                break;
                            }
                        }
                    }
                    st.add("ev.observe", k as u64);
                    if let Some(p) = bad {
                        out.violation = Some(panic_at(p, step, "last"));
                        break;
                    }
                }
                Ev::F { .. } => {
                    if !spec.cloneable() {
                        continue;
                    }
                    let view = reps[r].as_ref().unwrap();
                    match try_clone(view) {
                        Ok(c) => {
                            reps.push(Some(c));
                            delivered.push(delivered[r]);
                            let hcopy = hist[r].clone();
                            hist.push(hcopy);
                            st.hit("ev.fork");
                            special_before = true;
                        }
                        Err(p) => {
                            out.violation = Some(panic_at(p, step, "clone"));
                            break;
                        }
                    }
                }
                Ev::X { .. } => {
                    let v = reps[r].take().unwrap();
                    st.hit("ev.drop");
                    special_before = true;
                    if let Err(p) = try_drop(v) {
                        out.violation = Some(panic_at(p, step, "drop"));
                        break;
                    }
                }
                Ev::L { .. } | Ev::M { .. } | Ev::C { .. } => {}
            }
        }
        if out.violation.as_ref().map(|v| v.class == "timeout").unwrap_or(false) {
            // not a crash of the library: the run was cut by the harness's wall-clock budget
            out.violation = None;
            st.hit("skip.run_time_budget");
        }
        if out.violation.is_some() && fed_immoderate_magnitude_t::<T>(spec, &hist[viol_rep.min(hist.len() - 1)], Symptom::Panic, node_limit) {
            // e.g. a finiteness assertion tripped by the square of a 1e200 that an inner Roc legitimately produced
            out.violation = None;
            st.hit("skip.immoderate_intermediate_magnitude");
        }
        // window longer than the stream?
        let total: usize = delivered.iter().sum();
        if spec.any(&|s| s.k.has_n() && s.n > total) {
            st.hit("reach.window_longer_than_stream");
        }
        if spec.any(&|s| s.k.has_n() && s.n <= 2) {
            st.hit("reach.window_1_or_2");
        }
        st.add("deliveries", total as u64);
        for v in reps.into_iter().flatten() {
            if let Err(p) = try_drop(v) {
                if out.violation.is_none() {
                    out.violation = Some(Violation::new("panic", p.key(), sc.events.len(), format!("drop panicked: '{}' at {}", p.msg, p.loc)));
                }
            }
        }
        out.hist = h.0;
        out
}

/// Trees admissible at f32. (1) A custom ALMA's Gaussian must not be so narrow that the weight of the first
/// sample, exp(-((N+1)*offset*sigma/N)^2/2), underflows to zero (f64: sigma <= 10 keeps the exponent above -200
/// for every N; f32 underflows below -103, which sigma <= 6, the library's default, avoids for every N).
/// (2) The domain analysis "a moving average / extremum / sum of positive values is positive" is a fact about real
/// numbers that f64 keeps at the magnitudes fed here and f32 does not: the running sum of an Sma over values that
/// fall from 4e6 to 1 keeps a rounding residue of order 1 and can come out as 0 or below, which puts a LnReturn
/// above it outside its domain (accuracy of a running sum: C16's subject, not a readiness or crash matter). So at
/// f32 the views that need positive input sit directly on the (positive) stream, and there is no divisor subtree.
pub fn f32_params_ok(tree: &Spec) -> bool {
    fn leaf_like(s: &Spec) -> bool {
        matches!(s.k, K::Echo | K::Probe) || (s.k == K::Stall && matches!(s.kids[0].k, K::Echo | K::Probe))
    }
    !tree.any(&|s| (s.k == K::AlmaCustom && s.p > 6.0) || s.k == K::Div || (matches!(s.k, K::LnReturn | K::Drawdown) && !leaf_like(&s.kids[0])))
}
