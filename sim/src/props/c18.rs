//! C18 — bounded memory over unbounded simulated time, observed through the allocator seam.

use super::common::*;
use super::*;
use crate::alloc;
use crate::dynview::Ctx;
use crate::engine::*;
use crate::feed::{SCALES, SHAPES};
use crate::gen::*;
use crate::rng::Fnv;
use crate::scenario::{Feed, Scenario};
use crate::spec::{Spec, K};

pub struct C18;

pub fn warm_len(spec: &Spec) -> usize {
    let mut t = 0;
    spec.walk(&mut |s| t += s.n + m_eff(s));
    8 * t + 256
}

/// stall length of a node that never recovers within any run (an inner view that withholds its output for
/// ever: the views above it must then hold their footprint, not queue anything while they wait)
pub const NEVER: usize = 1_000_000_000;

/// second length parameter as far as buffers are concerned: the stub Stall buffers nothing
fn m_eff(s: &Spec) -> usize {
    if s.k == K::Stall && s.m >= NEVER {
        0
    } else {
        s.m
    }
}

/// replace the `which`-th Echo leaf (depth first; the moving-average slot of PFE/EFT counts too) by a stalled one
fn stall_for_ever(s: &mut Spec, which: &mut usize) -> bool {
    if s.k == K::Echo {
        if *which == 0 {
            *s = Spec::stall(NEVER, Spec::echo());
            return true;
        }
        *which -= 1;
        return false;
    }
    for k in s.kids.iter_mut() {
        if stall_for_ever(k, which) {
            return true;
        }
    }
    false
}

fn echo_leaves(s: &Spec) -> usize {
    let mut n = 0;
    s.walk(&mut |x| {
        if x.k == K::Echo {
            n += 1
        }
    });
    n
}

pub struct Meas {
    /// (delivery count, live heap bytes attributed to the replica(s)) at quiescent points
    pub points: Vec<(usize, isize)>,
    /// for each checkpoint: the largest quiescent live-byte count seen in the second half of the interval that
    /// ends at it (an implementation that trims in batches has a saw-tooth footprint; comparing interval maxima
    /// instead of point samples keeps the strict oracle sound for any period up to half the reference interval)
    pub interval_max: Vec<isize>,
    pub peak_transient: isize,
    pub deliveries: usize,
    pub hist: u64,
}

/// Build the replica, deliver `vals`, and sample the thread's live bytes (relative to just before
/// construction) at checkpoints ref, 2*ref, 4*ref, ... The harness allocates nothing in between.
/// `fork_at`: clone the replica at that delivery; `drop_orig`: drop the original right after the fork.
pub fn measure(spec: &Spec, vals: &[f64], fork_at: Option<usize>, drop_orig: bool) -> Result<Meas, &'static str> {
    measure_ex(spec, vals, fork_at, drop_orig, 0)
}

/// `reclone_every` > 0: every that many deliveries the (first) replica is replaced by its own clone and
/// the original dropped — a clone that carries more than its source would grow without bound.
pub fn measure_ex(spec: &Spec, vals: &[f64], fork_at: Option<usize>, drop_orig: bool, reclone_every: usize) -> Result<Meas, &'static str> {
    // once a checkpoint is far beyond the bound there is nothing more to learn, and a leaking window can make
    // every further update slower
    let stop_above = 4 * heap_bound(spec) * if fork_at.is_some() && !drop_orig { 2 } else { 1 };
    let l0 = warm_len(spec);
    let reference = match fork_at {
        Some(f) => f + l0,
        None => l0,
    };
    let mut points: Vec<(usize, isize)> = Vec::with_capacity(40);
    let mut interval_max: Vec<isize> = Vec::with_capacity(40);
    let mut cur_max: isize = isize::MIN;
    let mut h = Fnv::new();
    let mut ctx = Ctx::default();
    let base = alloc::live();
    let mut a = Some(try_build::<f64>(spec, &mut ctx).map_err(|_| "ctor_rejected")?);
    let mut b = None;
    let mut next_cp = reference;
    let mut peak_transient = 0isize;
    let mut n = 0usize;
    for x in vals {
        alloc::reset_peak();
        let before = alloc::live();
        if let Some(v) = a.as_mut() {
            if try_update(v, *x).is_err() {
                return Err("panic");
            }
            match try_last(v) {
                Ok(o) => h.opt(o),
                Err(_) => return Err("panic"),
            }
        }
        if let Some(v) = b.as_mut() {
            if try_update(v, *x).is_err() {
                return Err("panic");
            }
            match try_last(v) {
                Ok(o) => h.opt(o),
                Err(_) => return Err("panic"),
            }
        }
        n += 1;
        let pt = alloc::peak() - before.max(alloc::live());
        if pt > peak_transient {
            peak_transient = pt;
        }
        if Some(n) == fork_at {
            let c = match try_clone(a.as_ref().unwrap()) {
                Ok(c) => c,
                Err(_) => return Err("panic"),
            };
            b = Some(c);
            if drop_orig {
                if try_drop(a.take().unwrap()).is_err() {
                    return Err("panic");
                }
            }
        }
        if reclone_every > 0 && n % reclone_every == 0 {
            if let Some(v) = a.take() {
                let c = match try_clone(&v) {
                    Ok(c) => c,
                    Err(_) => return Err("panic"),
                };
                if try_drop(v).is_err() {
                    return Err("panic");
                }
                a = Some(c);
            }
        }
        if 2 * n >= next_cp {
            let l = alloc::live() - base;
            if l > cur_max {
                cur_max = l;
            }
        }
        if n == next_cp {
            points.push((n, alloc::live() - base));
            interval_max.push(cur_max);
            cur_max = isize::MIN;
            next_cp *= 2;
            if alloc::live() - base > stop_above {
                break;
            }
        }
    }
    if let Some(v) = a.take() {
        let _ = try_drop(v);
    }
    if let Some(v) = b.take() {
        let _ = try_drop(v);
    }
    drop(ctx);
    Ok(Meas { points, interval_max, peak_transient, deliveries: n, hist: h.0 })
}

/// Bound on the heap a view tree may own, as a function of its window lengths only: per node 1 KiB of
/// fixed overhead plus eight buffers of 8-byte entries at twice the next power of two above its
/// window (VecDeque/Vec capacity doubling). Roughly 5-10x the real steady-state footprint.
pub fn heap_bound(spec: &Spec) -> isize {
    let mut b = 0isize;
    spec.walk(&mut |s| {
        let w = (s.n + m_eff(s) + 2).next_power_of_two() as isize;
        b += 1024 + 8 * 8 * 2 * w;
    });
    b
}

/// rough cost of one update() of the tree, in units of a few nanoseconds (sizes the ultra-long runs)
pub fn work_per_update(spec: &Spec) -> usize {
    let mut w = 0usize;
    spec.walk(&mut |s| {
        w += match s.k {
            K::Net => 8 + s.n * s.n,
            K::CoG | K::Cti | K::TrendFlex | K::ReFlex | K::CyberCycle | K::Pfe | K::Min | K::Max | K::HLNormalizer | K::Eft => 4 + s.n,
            _ => 4,
        }
    });
    w
}

/// In such a tree every buffer reaches its final capacity within the warm-up L0, whatever the data:
/// readiness of every node that feeds another buffered node is a matter of counting delivered values.
/// Excluded: EFT (its moving average is fed only while the window is not flat) and any tree in which a view
/// whose first output depends on the data (Roc: non-zero base; LaguerreRSI: cu+cd != 0; ReFlex: ms > 0;
/// PFE: its MA's readiness) sits *below* another node.
pub fn strict_safe(spec: &Spec) -> bool {
    if spec.contains(K::Eft) {
        return false;
    }
    fn below_root_ok(s: &Spec, is_root: bool) -> bool {
        if !is_root && matches!(s.k, K::Roc | K::LaguerreRsi | K::ReFlex | K::Pfe | K::LnReturn | K::MyRsi | K::TrendFlex) {
            return false;
        }
        s.kids.iter().all(|k| below_root_ok(k, false))
    }
    below_root_ok(spec, true)
}

/// first checkpoint at which the live heap exceeds `copies` times the bound
fn grew(points: &[(usize, isize)], bound: isize) -> Option<(usize, isize)> {
    points.iter().copied().find(|&(_, b)| b > bound)
}

/// deepest subtree that grows on its own under the same values
fn culprit_growth(spec: &Spec, vals: &[f64]) -> String {
    fn go(spec: &Spec, vals: &[f64]) -> Option<String> {
        for k in &spec.kids {
            if let Some(c) = go(k, vals) {
                return Some(c);
            }
        }
        if spec.k.arity() > 0 {
            if let Ok(m) = measure(spec, vals, None, false) {
                if grew(&m.points, heap_bound(spec)).is_some() {
                    return Some(spec.k.name().to_string());
                }
            }
        }
        None
    }
    go(spec, vals).unwrap_or_else(|| "?".into())
}

impl Prop for C18 {
    fn id(&self) -> &'static str {
        "C18"
    }
    fn runs(&self, tier: Tier) -> u64 {
        match tier {
            Tier::Quick => 8_000,
            Tier::Thorough => 60_000,
        }
    }
    fn generate(&self, i: u64, r: &mut Rng, tier: Tier) -> Scenario {
        let ws = wrappers();
        let nw = ws.len() as u64;
        let mut sc = Scenario::new("C18", "heap");
        let ma = |r: &mut Rng| {
            let k = crate::gen::pick_ma_kind(r);
            let n = r.range(1, 12);
            let mut m = Spec::un(k, n, Spec::echo());
            gen_params(r, &mut m, false);
            m
        };
        let n_shapes = SHAPES.len() as u64;
        // systematic ultra-long block: every view alone, small power-of-two-ish windows, periodic feed, strict oracle
        let ultra_ns: &[usize] = if tier == Tier::Quick { &[4] } else { &[4, 3, 7, 8, 16, 32] };
        let ultra_lo = nw * n_shapes + nw * nw;
        let ultra_hi = ultra_lo + nw * ultra_ns.len() as u64;
        let sys_ultra = i >= ultra_lo && i < ultra_hi;
        let tree = if sys_ultra {
            let j = i - ultra_lo;
            let k = ws[(j % nw) as usize];
            let n = ultra_ns[(j / nw) as usize].max(min_window(k));
            let mut s = wrap(r, k, n, Spec::echo(), Some(Spec::un(K::Sma, n, Spec::echo())));
            s.default_params();
            if s.k == K::Roofing {
                s.m = 4;
            }
            s
        } else if i < nw * n_shapes {
            // every view alone under every workload shape
            let k = ws[(i % nw) as usize];
            let n = *r.pick(&[2usize, 3, 5, 8, 16, 40]);
            let m1 = ma(r);
            let mut s = wrap(r, k, n, Spec::echo(), Some(m1));
            gen_params(r, &mut s, false);
            s
        } else if i < nw * n_shapes + nw * nw {
            // every two-level chain
            let j = i - nw * n_shapes;
            let outer = ws[(j % nw) as usize];
            let inner = ws[((j / nw) % nw) as usize];
            let need_pos = matches!(outer, K::Drawdown | K::LnReturn);
            let m1 = ma(r);
            let ni = r.range(2, 12);
            let mut si = wrap(r, inner, ni, Spec::echo(), Some(m1));
            gen_params(r, &mut si, need_pos);
            if need_pos && !si.positive() {
                si = Spec::un(K::Sma, 4, Spec::echo());
            }
            let m2 = ma(r);
            let no = r.range(2, 12);
            wrap(r, outer, no, si, Some(m2))
        } else {
            let depth = r.range(1, 3);
            let cfg = TreeCfg { n_max: 48, ..TreeCfg::full(depth, LeafMode::StallMix) };
            loop {
                let t = gen_tree(r, &cfg, depth, 3, false, false);
                if t.domain_ok_positive_feed() && t.k.arity() > 0 {
                    break t;
                }
            }
        };
        // a node that stalls for ever (6% of the runs outside the ultra-long block): everything above it waits,
        // for hundreds of thousands of deliveries, and must not queue anything while it does
        let mut tree = tree;
        if !sys_ultra && r.chance(0.06) {
            let leaves = echo_leaves(&tree);
            if leaves > 0 {
                let mut which = r.below(leaves);
                if stall_for_ever(&mut tree, &mut which) {
                    sc.stat("stall_for_ever", 1);
                }
            }
        }
        let positive = tree.needs_positive_feed();
        let shape = if i < nw * n_shapes { (i / nw) as u8 } else { r.below(SHAPES.len()) as u8 };
        // a third of the runs outside the systematic block use a periodic feed (where the strict oracle applies)
        let shape = crate::feed::shape_for(std::slice::from_ref(&tree), shape);
        let shape = if sys_ultra { 14 } else if i >= nw * n_shapes && r.chance(0.3) { *r.pick(&[14u8, 14, 14, 4, 6]) } else { shape };
        let scale = crate::feed::pick_scale(r, !tree.needs_positive_feed() && !tree.contains(K::Mul));
        let l0 = warm_len(&tree);
        let fork = !sys_ultra && tree.cloneable() && r.chance(0.3);
        let reference = if fork { 2 * l0 } else { l0 };
        // at least two doublings after the reference checkpoint
        let min_len = 4 * reference + 1;
        // ultra-long runs (beyond 2^22 and 2^23 deliveries) for trees that are cheap enough: a leak of one slot
        // per few million updates only shows there, and only under the strict no-growth oracle
        let ultra = sys_ultra || r.chance(if tier == Tier::Quick { 0.004 } else { 0.01 });
        let len = if ultra {
            (120_000_000 / work_per_update(&tree)).clamp(min_len.max(40_000), 9_000_000)
        } else {
            match tier {
            Tier::Quick => min_len.max(40_000).min(400_000),
            Tier::Thorough => {
                if r.chance(0.002) {
                    4_000_001
                } else if r.chance(0.05) {
                    min_len.max(400_000)
                } else {
                    min_len.max(60_000)
                }
            }
            }
        };
        sc.trees.push(tree);
        sc.feeds.push(Feed::Gen { seed: r.next_u64(), shape, len, scale, positive, quant: 0.0 });
        sc.set_int("fork_at", if fork { l0 as i64 } else { -1 });
        sc.set_int("drop_orig", r.chance(0.5) as i64);
        let reclone = !sys_ultra && sc.trees[0].cloneable() && r.chance(0.15);
        sc.set_int("reclone_every", if reclone { *r.pick(&[1i64, 7, 100, 1000]) } else { 0 });
        sc
    }

    fn execute(&self, sc: &Scenario) -> RunOut {
        let mut out = RunOut::default();
        if let Err(e) = domain_check(sc, MAX_MAG) {
            out.invalid = Some(e);
            return out;
        }
        if sc.trees.is_empty() || sc.feeds.is_empty() || sc.trees[0].k.arity() == 0 {
            out.invalid = Some("needs one tree and one feed".into());
            return out;
        }
        let spec = &sc.trees[0];
        let vals = sc.feeds[0].materialise();
        let fork_at = sc.int("fork_at").filter(|f| *f > 0 && spec.cloneable()).map(|f| f as usize);
        let drop_orig = sc.int("drop_orig").unwrap_or(0) != 0;
        let reclone = sc.int("reclone_every").filter(|x| *x > 0 && spec.cloneable()).unwrap_or(0) as usize;
        if reclone > 0 {
            out.stats.hit("reach.replica_repeatedly_replaced_by_its_clone");
        }
        match measure_ex(spec, &vals, fork_at, drop_orig, reclone) {
            Err(why) => {
                out.stats.hit(&format!("skip.{}", why));
            }
            Ok(m) => {
                out.hist = m.hist;
                out.stats.add("deliveries", m.deliveries as u64 * if fork_at.is_some() && !drop_orig { 2 } else { 1 });
                out.stats.add("oracle.checkpoints", m.points.len() as u64);
                out.stats.add("peak_transient_bytes_total", m.peak_transient.max(0) as u64);
                if m.peak_transient > 0 {
                    out.stats.hit("reach.transient_scratch_inside_update");
                }
                if fork_at.is_some() {
                    out.stats.hit("ev.fork");
                    if drop_orig {
                        out.stats.hit("ev.drop");
                    }
                }
                if m.deliveries >= 4_000_000 {
                    out.stats.hit("reach.run_4e6");
                }
                if m.deliveries >= 400_000 {
                    out.stats.hit("reach.run_4e5");
                }
                if m.points.len() >= 3 {
                    out.nontrivial = true;
                }
                if m.points.len() < 2 {
                    out.invalid = Some("stream too short for two checkpoints".into());
                    return out;
                }
                let copies = if fork_at.is_some() && !drop_orig { 2 } else { 1 };
                let bound = copies * heap_bound(spec);
                // informational: did the footprint still move after the reference checkpoint?
                if m.points.windows(2).any(|w| w[1].1 > w[0].1) {
                    out.stats.hit("reach.late_capacity_growth_within_bound");
                }
                // strict no-growth oracle where it is sound: no clone juggling, and a tree whose buffers are all
                // at their final capacity after the warm-up whatever the data
                // ... and only under a periodic feed: with data-dependent occupancy (a monotonic deque, a clone whose
                // buffers were allocated for the occupancy at the moment of cloning) a buffer may legitimately reach
                // its final capacity late on an aperiodic stream, but on a periodic one everything that can happen
                // has happened one period after the warm-up
                let periodic = match &sc.feeds[0] {
                    Feed::Gen { shape, .. } => crate::feed::is_periodic_shape(*shape),
                    _ => false,
                };
                let strict = reclone == 0 && periodic && strict_safe(spec);
                if strict {
                    out.stats.hit("oracle.strict_no_growth_runs");
                    let n0 = m.points[0].0;
                    let b0 = m.interval_max[0];
                    let later = m.points[1..].iter().zip(m.interval_max[1..].iter()).find(|(_, &mx)| mx > b0).map(|(&(n1, _), &mx)| (n1, mx));
                    if let Some((n1, b1)) = later {
                        if out.violation.is_none() && b1 <= bound {
                            let key = spec.k.name().to_string();
                            out.violation = Some(Violation::new(
                                "heap_growth_after_warmup",
                                key,
                                n1,
                                format!("{}: the largest live heap attributed to the view in the deliveries ({}..{}] was {} B, in the half-interval ending at delivery {} it was {} B, although every buffer of this tree is at its final capacity after the warm-up (checkpoints: {:?}, interval maxima: {:?})", spec.show(), n0 / 2, n0, b0, n1, b1, m.points, m.interval_max),
                            ));
                        }
                    }
                }
                if m.deliveries >= 8_400_000 {
                    out.stats.hit("reach.run_beyond_2pow23");
                }
                if let Some((n1, b1)) = grew(&m.points, bound) {
                    let key = culprit_growth(spec, &vals);
                    out.violation = Some(Violation::new(
                        "heap_growth",
                        key,
                        n1,
                        format!("{}: live heap attributed to the view is {} B after {} deliveries, above the window-length bound of {} B (all checkpoints: {:?})", spec.show(), b1, n1, bound, m.points),
                    ));
                }
            }
        }
        out
    }

    fn rule(&self) -> String {
        "Block 1: every wrapper alone under each of the 15 workload shapes (which branch pushes can depend on the data). Block 2: every ordered pair of wrappers as a two-level chain. Block 3: every wrapper alone with a window of 4 (thorough: 4, 3, 7, 8, 16, 32) on an ultra-long periodic stream (up to 9 000 000 deliveries, sized by the view's cost per update). Block 4: random trees (depth 1-3, combinators, stalls). 15% of runs replace the replica by its own clone every 1/7/100/1000 deliveries (dropping the original); 30% of runs clone the replica after the warm-up L0 = 8*(sum of window lengths)+256 deliveries and continue with the clone (dropping the original in half of them). Streams come from the seeded generator: quick 40k-400k deliveries, thorough 60k+, 5% 400k+, 0.2% 4,000,001. A counting #[global_allocator] keeps per-thread live bytes; the harness allocates nothing between construction and the last checkpoint. Oracle 2 (strict, only where sound: a periodic feed - constant, alternating or a repeated pattern of period <= 48 -, trees without EFT in which no view with data-dependent readiness sits below another node, and no re-cloning): the largest live-byte count seen in the second half of each later checkpoint interval must not exceed the largest seen in (R/2, R] (interval maxima rather than point samples, so that an implementation that trims in batches, with a saw-tooth footprint, is not flagged). 0.4% (thorough 1%) of the runs are ultra-long, up to 9 000 000 deliveries, sized by the tree's cost per update. Oracle 1: at every checkpoint R, 2R, 4R, 8R, ... (R = L0, or fork point + L0) the live bytes stay below a bound that depends on the window lengths only (per node 1 KiB + eight 8-byte buffers at twice the next power of two above the window; about 5-10x the real footprint). A push-per-update leak of one f64 exceeds it within a few thousand deliveries. (A first version demanded 'no growth after L0'; that raised a false alarm on EFT, whose moving average is fed only when the window is not flat and therefore reaches its final capacity late. Removed.) distinct = distinct (topology, feed length, fork choice); non-trivial = at least three checkpoints (two doublings) were compared."
            .into()
    }
    fn assumptions(&self) -> Vec<String> {
        vec![
            "heap attributed to the replica = change of the executing thread's live-byte counter since just before construction, sampled between events; transient scratch inside one update() is reported (peak_transient) but not counted as owned memory".into(),
            "the bound is generous (5-10x the measured footprint), so a leak is reported once it has accumulated past it: a leak of 8 bytes per update shows within ~2000*N deliveries; slower or rarer leaks need the longer thorough streams".into(),
            "a panic ends the run (skipped.panic): crashes belong to C15".into(),
        ]
    }
    fn must_reach(&self, t: Tier) -> Vec<&'static str> {
        let mut v = vec!["ev.fork", "ev.drop", "oracle.checkpoints", "reach.transient_scratch_inside_update", "reach.replica_repeatedly_replaced_by_its_clone"];
        if t == Tier::Thorough {
            v.push("reach.run_4e6");
        }
        v
    }
}
