//! C09 — recursive filters: geometric recovery after a perturbation burst (fault-free tail),
//! and boundedness over unbounded simulated time.

use super::common::*;
use super::*;
use crate::dynview::Ctx;
use crate::engine::*;
use crate::feed::{apply_faults, gen_shape, FaultCfg, SHAPES};
use crate::gen::*;
use crate::rng::Fnv;
use crate::scenario::{Feed, Scenario};
use crate::spec::{Spec, K};

pub struct C09;

pub const RECURSIVE: &[K] = &[K::Ema, K::EmaAlpha, K::LaguerreFilter, K::SuperSmoother, K::Roofing, K::CyberCycle, K::TrendFlex, K::ReFlex, K::LaguerreRsi, K::Eft];

fn is_ratio(k: K) -> bool {
    matches!(k, K::TrendFlex | K::ReFlex | K::LaguerreRsi | K::Eft)
}

/// recovery horizon in deliveries after the merge point (DESIGN.md section 4, C09)
pub fn horizon(s: &Spec) -> Option<usize> {
    let n = s.n as f64;
    let own = match s.k {
        K::Echo | K::Probe => return Some(0),
        K::Stall => return horizon(&s.kids[0]).map(|h| h + s.m),
        K::Ema => 15.0 * (n + 1.0) + 100.0,
        // a custom alpha can make the decay much shorter than the N-value readiness gate: add the gate
        K::EmaAlpha => 30.0 * (n + 1.0) / s.p + 100.0 + n,
        K::SuperSmoother => 20.0 * n + 100.0,
        K::Roofing => 20.0 * (n + s.m as f64) + 200.0,
        K::CyberCycle => 20.0 * n + 100.0,
        K::LaguerreFilter => 60.0 / (1.0 - s.p) + 100.0,
        K::TrendFlex | K::ReFlex => 1200.0 + 20.0 * n,
        K::LaguerreRsi => 20.0 * n + 200.0,
        K::Sma => n + 1.0,
        K::Alma | K::AlmaCustom => 2.0 * n,
        K::Eft => {
            let ma = horizon(&s.kids[1])?;
            n + ma as f64 + 100.0
        }
        _ => return None,
    };
    let inner = horizon(&s.kids[0])?;
    Some(own.ceil() as usize + inner)
}

/// "Geometrically" means the recovery time grows with the logarithm of the size of the perturbation: the
/// horizons of `horizon()` are calibrated for perturbations up to 1e3 S; beyond that they are stretched by
/// one third per decade (ratio 1e12: x4).
pub fn horizon_stretch(ratio: f64) -> f64 {
    1.0 + (ratio.max(1.0).log10() - 3.0).max(0.0) / 3.0
}

/// analytic output bound for the ratio-type views (plus slack), None for linear ones
fn ratio_bound(k: K) -> Option<f64> {
    match k {
        K::TrendFlex | K::ReFlex => Some(5.0 + 1e-9),
        K::LaguerreRsi => Some(1.0 + 1e-9),
        K::Eft => Some(199f64.ln() + 1e-9),
        _ => None,
    }
}

/// Linear views over LaguerreRSI over the raw stream or plain low-passes: on a slow strictly rising ramp
/// LaguerreRSI ends up reporting exactly 1 in both replicas (see generate()), and whatever linear filters sit
/// above it then see identical input and forget the rest geometrically.
fn ramp_chain(tree: &Spec) -> bool {
    let mut s = tree;
    while matches!(s.k, K::Ema | K::EmaAlpha | K::LaguerreFilter | K::SuperSmoother | K::Roofing | K::CyberCycle | K::Sma | K::Alma) {
        s = &s.kids[0];
    }
    s.k == K::LaguerreRsi && !s.kids[0].any(&|x| !matches!(x.k, K::Echo | K::Ema | K::EmaAlpha | K::Sma | K::Alma | K::LaguerreFilter))
}

fn gen_c09_n(r: &mut Rng, k: K) -> usize {
    let lo = min_window(k).max(if matches!(k, K::Roofing) { 2 } else { 1 });
    let x = r.unit();
    if x < 0.5 {
        r.range(lo, 9)
    } else if x < 0.87 {
        r.range(10, 64)
    } else if x < 0.96 {
        128
    } else {
        1000
    }
}

fn gen_recursive(r: &mut Rng, k: K, inner: Spec) -> Spec {
    let n = gen_c09_n(r, k);
    let mut s = match k {
        K::Eft => {
            // the smoothing slot accepts any view: the usual averages, and smoothers that overshoot
            let mk = *r.pick(&[K::Ema, K::Sma, K::Alma, K::Ema, K::Sma, K::SuperSmoother, K::LaguerreFilter]);
            let mut ma = Spec::un(mk, r.range(1, 12), Spec::echo());
            if mk == K::LaguerreFilter {
                ma.n = 0;
                ma.p = *r.pick(GAMMAS);
            }
            Spec::with_ma(K::Eft, n, inner, ma)
        }
        _ => Spec::un(k, if k.has_n() { n } else { 0 }, inner),
    };
    match k {
        K::EmaAlpha => s.p = r.uniform(0.2, s.n as f64 + 1.0).min(s.n as f64 + 0.999),
        K::LaguerreFilter => s.p = *r.pick(GAMMAS),
        K::Roofing => s.m = r.range(1, 16),
        _ => {}
    }
    s
}

struct Rec {
    viol: Option<(usize, f64, f64)>,
    compared: u64,
    skipped_none: u64,
    skipped_nonfinite: u64,
    worst_ratio: f64,
    hist: u64,
    decay: [f64; 3],
}

/// run two replicas over their prefixes and the common tail; compare in [T, 2T]
fn recovery(spec: &Spec, pa: &[f64], pb: &[f64], tail: &[f64], floor: f64, tol: f64, stretch: f64) -> Result<Rec, &'static str> {
    let t_h = (horizon(spec).ok_or("no_horizon")? as f64 * stretch).ceil() as usize;
    let mut ctx = Ctx::default();
    let mut a = try_build::<f64>(spec, &mut ctx).map_err(|_| "ctor_rejected")?;
    let mut b = try_build::<f64>(spec, &mut ctx).map_err(|_| "ctor_rejected")?;
    for x in pa {
        try_update(&mut a, *x).map_err(|_| "panic")?;
    }
    for x in pb {
        try_update(&mut b, *x).map_err(|_| "panic")?;
    }
    let mut h = Fnv::new();
    let mut rec = Rec { viol: None, compared: 0, skipped_none: 0, skipped_nonfinite: 0, worst_ratio: 0.0, hist: 0, decay: [f64::NAN; 3] };
    let mut scale = floor;
    let mut diffs: Vec<(usize, f64)> = Vec::new();
    for (i, x) in tail.iter().enumerate() {
        let t = i + 1;
        try_update(&mut a, *x).map_err(|_| "panic")?;
        try_update(&mut b, *x).map_err(|_| "panic")?;
        let oa = try_last(&a).map_err(|_| "panic")?;
        let ob = try_last(&b).map_err(|_| "panic")?;
        h.opt(oa);
        h.opt(ob);
        if t < t_h / 4 {
            continue;
        }
        let (va, vb) = match (oa, ob) {
            (Some(x), Some(y)) => (x, y),
            _ => {
                rec.skipped_none += 1;
                continue;
            }
        };
        if !va.is_finite() || !vb.is_finite() {
            rec.skipped_nonfinite += 1;
            continue;
        }
        let d = (va - vb).abs();
        if t == t_h / 4 {
            rec.decay[0] = d;
        }
        if t == t_h / 2 {
            rec.decay[1] = d;
        }
        if t == t_h {
            rec.decay[2] = d;
        }
        if t >= t_h {
            scale = scale.max(va.abs()).max(vb.abs());
            diffs.push((t, d));
        }
    }
    // scale = largest magnitude seen in the comparison window (or the floor): evaluate afterwards
    for (t, d) in diffs {
        rec.compared += 1;
        let ratio = d / (tol * scale);
        if ratio > rec.worst_ratio {
            rec.worst_ratio = ratio;
        }
        if !(d <= tol * scale) && rec.viol.is_none() {
            rec.viol = Some((t, d, tol * scale));
        }
    }
    rec.hist = h.0;
    Ok(rec)
}

/// chains made of low-pass filters with unit DC gain only: a constant stretch is an admissible tail and the output
/// stays inside the range of the input (up to a few percent of overshoot)
fn feedback_chain(tree: &Spec) -> bool {
    tree.any(&|x| x.k != K::Echo) && !tree.any(&|x| !matches!(x.k, K::Echo | K::Ema | K::EmaAlpha | K::SuperSmoother | K::LaguerreFilter | K::Sma | K::Alma))
}

fn chain_nodes(spec: &Spec) -> Vec<&Spec> {
    let mut v = vec![];
    let mut s = spec;
    loop {
        if s.k.arity() == 0 {
            break;
        }
        v.push(s);
        s = &s.kids[0];
    }
    v.reverse(); // innermost first
    v
}

fn range_of(k: K) -> f64 {
    match k {
        K::TrendFlex | K::ReFlex => 10.0,
        K::LaguerreRsi => 1.0,
        K::Eft => 2.0 * 5.2933,
        _ => 0.0,
    }
}

/// (tolerance, scale floor): 1e-9 of S for all-linear chains; 1e-6 of the output range of the
/// outermost ratio-type node otherwise
fn tol_floor(spec: &Spec, s_scale: f64) -> (f64, f64) {
    let mut s = spec;
    loop {
        if is_ratio(s.k) {
            return (1e-6, range_of(s.k));
        }
        if s.k.arity() == 0 {
            return (1e-9, s_scale);
        }
        s = &s.kids[0];
    }
}

impl Prop for C09 {
    fn id(&self) -> &'static str {
        "C09"
    }
    fn runs(&self, tier: Tier) -> u64 {
        match tier {
            Tier::Quick => 12_000,
            Tier::Thorough => 300_000,
        }
    }
    fn generate(&self, i: u64, r: &mut Rng, tier: Tier) -> Scenario {
        let bounded = i % 8 == 7;
        let mut sc = Scenario::new("C09", if bounded { "bounded" } else { "recovery" });
        // topology: single recursive view (systematic over kinds), or a two-level chain of them
        let k = RECURSIVE[(i as usize / 8) % RECURSIVE.len()];
        let chain = r.chance(0.3);
        let inner = if chain {
            let ki = *r.pick(RECURSIVE);
            // a third level in a quarter of the chains ("any chain built from them")
            let innermost = if r.chance(0.25) {
                let kj = *r.pick(RECURSIVE);
                gen_recursive(r, kj, Spec::echo())
            } else {
                Spec::echo()
            };
            gen_recursive(r, ki, innermost)
        } else {
            Spec::echo()
        };
        let mut tree = gen_recursive(r, k, inner);
        // keep horizons affordable
        while horizon(&tree).unwrap_or(0) > 60_000 {
            tree = gen_recursive(r, k, Spec::echo());
        }
        let s_scale = *r.pick(&[1e-3, 1e-2, 0.1, 1.0, 1.0, 1.0, 10.0, 100.0, 1e3, 1e-12, 1e-9, 1e-6, 1e6, 1e9]);
        if bounded {
            let len = match tier {
                Tier::Quick => {
                    if r.chance(0.03) {
                        1_100_000
                    } else {
                        140_000
                    }
                }
                Tier::Thorough => {
                    if r.chance(0.08) {
                        1_100_000
                    } else {
                        300_000
                    }
                }
            };
            let shape = r.below(SHAPES.len()) as u8;
            sc.feeds.push(Feed::Gen { seed: r.next_u64(), shape, len, scale: s_scale / 4.25, positive: r.chance(0.5), quant: 0.0 });
            sc.set_int("s_scale_bits", s_scale.to_bits() as i64);
        } else if feedback_chain(&tree) && r.chance(0.3) {
            // closed-loop client: a consumer that bridges a data gap by re-feeding the chain its own last reading.
            // Replica A receives prefix A, replica B prefix B; from the merge on both receive the same stream, which
            // starts with H >= T copies of the value replica A reported at the merge (computed at run time from the
            // real view) and continues with live data. All-low-pass chains only: a constant stretch is admissible for
            // them and the held value lies inside the tail domain [S/2, 2S].
            sc.mode = "feedback".into();
            let t_h = horizon(&tree).unwrap();
            let hold = t_h + r.range(0, t_h / 2 + 1);
            let tail_shape = *r.pick(&[12u8, 1, 9, 12]);
            let u = gen_shape(r, tail_shape, 2 * t_h + 2, 1.0, false);
            let rest: Vec<f64> = u.iter().map(|x| s_scale * (1.25 + 0.375 * x).clamp(0.5, 2.0)).collect();
            let mut pre = |r: &mut Rng, lo: usize| -> Vec<f64> {
                let len = r.range(lo, 400);
                let shape = r.below(SHAPES.len()) as u8;
                gen_shape(r, shape, len, 1.0, false).iter().map(|x| s_scale * (1.25 + 0.375 * x).clamp(0.5, 2.0)).collect()
            };
            let pa = pre(r, 1);
            let pb = pre(r, 0);
            sc.feeds.push(Feed::Lit(pa));
            sc.feeds.push(Feed::Lit(pb));
            sc.feeds.push(Feed::Lit(rest));
            sc.set_int("hold_len", hold as i64);
            sc.set_int("s_scale_bits", s_scale.to_bits() as i64);
        } else {
            let t_h = horizon(&tree).unwrap();
            let any_ratio = tree.any(&|x| is_ratio(x.k));
            // common tail: persistently exciting within [S/2, 2S] (constant tails only for all-linear chains)
            // Ratio-type chains get genuinely random tails only (iid uniform, random walk): an inner view may reduce
            // its input to order statistics (EFT with a window of 2 maps any stream to a +-1 pattern), and under a
            // sinusoid with small noise that pattern is exactly periodic, the inner output settles to a constant
            // cycle, and the outer normaliser ends up dividing rounding noise by rounding noise.
            let tail_shape: u8 = if !any_ratio && r.chance(0.15) { 4 } else if any_ratio { *r.pick(&[12u8, 1, 12]) } else { *r.pick(&[12u8, 1, 9, 12]) };
            // LaguerreRSI directly over the stream or over a plain low-pass: a slow strictly rising ramp through
            // [0.59 S, 1.91 S] is an admissible tail as well. The four Laguerre stages then settle, geometrically, into
            // the order l0 > l1 > l2 > l3 with gaps of at least one ramp step (about S/(1.5 T), against differences
            // between the replicas of 1e-9 S and less from T on), CD is exactly zero in both replicas and both
            // report exactly 1: a sustained trend must not let the state of before the merge show through.
            let ramp_ok = ramp_chain(&tree);
            let tail_shape = if ramp_ok && r.chance(0.4) { 2 } else { tail_shape };
            // EFT directly over the stream: its normalised input is a function of the window alone and everything
            // after it (the linear average, the clamp, the 0.5-contraction) forgets geometrically whatever the data,
            // so any tail is admissible - in particular one that repeats with a period that equals or divides the
            // window length (every value that enters then equals the one that leaves)
            let resonant: Option<usize> = if tree.k == K::Eft && tree.kids[0].k == K::Echo && r.chance(0.3) {
                let n = tree.n.max(1);
                let mut cands: Vec<usize> = vec![n, 2 * n];
                for d in [2usize, 3, 4] {
                    if n % d == 0 && n / d >= 2 {
                        cands.push(n / d);
                        cands.push(d);
                    }
                }
                let p = if r.chance(0.7) { *r.pick(&cands) } else { r.range(2, 12) };
                Some(p.max(2))
            } else {
                None
            };
            // "and stays there": 1.5% of the tails run on for thousands to a million deliveries after 2T
            let extra_tail = if r.chance(0.015) { crate::feed::long_len(r) } else { 0 };
            // mostly up to 500 S; in 15% of the runs a burst of 1e6..1e12 S (the horizon grows with the logarithm of it)
            let spike: f64 = if r.chance(0.15) { *r.pick(&[1e6, 1e9, 1e12]) / 2.0 } else { *r.pick(&[10.0, 100.0, 1000.0]) / 2.0 };
            let t_h = (t_h as f64 * horizon_stretch(spike.max(2.0))).ceil() as usize;
            let u = match resonant {
                Some(p) => {
                    let pat: Vec<f64> = (0..p).map(|_| r.uniform(-2.0, 2.0)).collect();
                    (0..2 * t_h + 2 + extra_tail).map(|i| pat[i % p]).collect()
                }
                None => gen_shape(r, tail_shape, 2 * t_h + 2 + extra_tail, 1.0, false),
            };
            let tail_shape = if resonant.is_some() { 14 } else { tail_shape };
            let noise = if tail_shape == 9 { 0.05 } else { 0.0 };
            let tail: Vec<f64> = u.iter().map(|x| s_scale * (1.25 + 0.375 * x + noise * (r.unit() - 0.5)).clamp(0.5, 2.0)).collect();
            // prefixes: one base stream, an independent fault realisation for each replica
            let base_len = r.range(0, 400);
            let shape = r.below(SHAPES.len()) as u8;
            let base = gen_shape(r, shape, base_len, s_scale, false);
            let ca = FaultCfg::swarm(r, 300, spike);
            let cb = FaultCfg::swarm(r, 300, spike);
            let (pa, fa) = apply_faults(r, &base, &ca, s_scale, false);
            let (pb, fb) = apply_faults(r, &base, &cb, s_scale, false);
            for (f, n) in [(&fa, "a"), (&fb, "b")] {
                let _ = n;
                sc.stat("drop", f.drop);
                sc.stat("dup", f.dup);
                sc.stat("swap", f.swap);
                sc.stat("corrupt", f.corrupt);
                sc.stat("spike", f.spike);
                sc.stat("extra_prefix", f.extra);
            }
            sc.feeds.push(Feed::Lit(pa));
            sc.feeds.push(Feed::Lit(pb));
            sc.feeds.push(Feed::Lit(tail));
            sc.set_int("s_scale_bits", s_scale.to_bits() as i64);
        }
        sc.trees.push(tree);
        sc
    }

    fn execute(&self, sc: &Scenario) -> RunOut {
        let mut out = RunOut::default();
        if sc.trees.is_empty() {
            out.invalid = Some("no tree".into());
            return out;
        }
        let spec = &sc.trees[0];
        if let Err(e) = spec_valid(spec) {
            out.invalid = Some(e);
            return out;
        }
        // admissible configurations: chains of recursive views at or above their minimum window
        let mut bad = None;
        spec.walk(&mut |s| {
            if s.k.arity() > 0 && !RECURSIVE.contains(&s.k) && !matches!(s.k, K::Sma | K::Alma | K::AlmaCustom | K::Stall) {
                bad = Some(format!("{} is not a recursive view", s.k.name()));
            }
            if RECURSIVE.contains(&s.k) && s.k.has_n() && s.n < min_window(s.k).max(if s.k == K::Roofing { 2 } else { 1 }) {
                bad = Some(format!("{} below its minimum window", s.k.name()));
            }
            if s.k == K::EmaAlpha && s.p >= s.n as f64 + 1.0 {
                bad = Some("Ema weight must be < 1 for fading memory".into());
            }
        });
        if !RECURSIVE.contains(&spec.k) {
            bad = Some("root is not a recursive view".into());
        }
        if let Some(b) = bad {
            out.invalid = Some(b);
            return out;
        }
        let s_scale = sc.int("s_scale_bits").map(|b| f64::from_bits(b as u64)).unwrap_or(1.0);
        if !(s_scale.is_finite() && s_scale > 0.0 && s_scale <= 1e10) {
            out.invalid = Some("scale".into());
            return out;
        }
        match sc.mode.as_str() {
            "recovery" | "feedback" => {
                if sc.feeds.len() < 3 {
                    out.invalid = Some("recovery needs prefix_a, prefix_b, tail".into());
                    return out;
                }
                let pa = sc.feeds[0].materialise();
                let pb = sc.feeds[1].materialise();
                let mut tail = sc.feeds[2].materialise();
                if sc.mode == "feedback" {
                    if !feedback_chain(spec) {
                        out.invalid = Some("feedback mode needs an all-low-pass chain".into());
                        return out;
                    }
                    let hold = sc.int("hold_len").unwrap_or(0).max(0) as usize;
                    // the value replica A reports at the merge, read from the real view
                    let mut ctx = Ctx::default();
                    let mut c = None;
                    if let Ok(mut a) = try_build::<f64>(spec, &mut ctx) {
                        if pa.iter().all(|x| try_update(&mut a, *x).is_ok()) {
                            c = try_last(&a).ok().flatten();
                        }
                    }
                    match c {
                        Some(c) if c.is_finite() && c >= 0.5 * s_scale && c <= 2.0 * s_scale => {
                            let mut t = vec![c; hold];
                            t.extend_from_slice(&tail);
                            tail = t;
                            out.stats.hit("reach.feedback_hold_of_own_output");
                        }
                        _ => {
                            out.stats.hit("skip.feedback_value_unavailable");
                            return out;
                        }
                    }
                }
                let t_h = match horizon(spec) {
                    Some(t) => t,
                    None => {
                        out.invalid = Some("no horizon".into());
                        return out;
                    }
                };
                // domain: finite, prefixes bounded by 1e3*S, tail inside [S/2, 2S] and long enough
                let any_ratio = spec.any(&|x| is_ratio(x.k));
                if pa.iter().chain(pb.iter()).any(|x| !x.is_finite() || x.abs() > 1.0e12 * s_scale * 1.001) {
                    out.invalid = Some("prefix value outside [-1e12 S, 1e12 S]".into());
                    return out;
                }
                // the larger the perturbation, the longer the (logarithmically stretched) horizon
                let ratio = pa.iter().chain(pb.iter()).fold(1.0f64, |m, x| m.max(x.abs() / s_scale));
                let stretch = horizon_stretch(ratio);
                if stretch > 1.0 {
                    out.stats.hit("reach.perturbation_above_1e3_S");
                }
                let t_h = (t_h as f64 * stretch).ceil() as usize;
                if tail.len() < 2 * t_h || tail.iter().any(|x| !x.is_finite() || *x < 0.5 * s_scale || *x > 2.0 * s_scale) {
                    out.invalid = Some("tail must have >= 2T values inside [S/2, 2S]".into());
                    return out;
                }
                if any_ratio {
                    // persistently exciting: no flat stretch of 3 equal values in the tail
                    if tail.windows(3).any(|w| w[0] == w[1] && w[1] == w[2]) {
                        out.invalid = Some("ratio-type views need a persistently exciting tail".into());
                        return out;
                    }
                }
                if spec.any(&|x| x.k == K::LaguerreRsi) && tail.windows(2).all(|w| w[0] < w[1]) {
                    out.stats.hit("reach.laguerre_rsi_on_a_rising_ramp");
                }
                if spec.k == K::Eft && spec.n >= 2 && tail.len() > 4 * spec.n && (2 * spec.n..tail.len()).all(|i| tail[i] == tail[i - spec.n]) {
                    out.stats.hit("reach.eft_tail_period_divides_window");
                }
                let (tol, floor) = tol_floor(spec, s_scale);
                match recovery(spec, &pa, &pb, &tail, floor, tol, stretch) {
                    Err(why) => out.stats.hit(&format!("skip.{}", why)),
                    Ok(rec) => {
                        out.hist = rec.hist;
                        out.stats.add("deliveries", (pa.len() + pb.len() + 2 * tail.len()) as u64);
                        out.stats.add("oracle.steps_compared", rec.compared);
                        out.stats.add("skip.steps_none", rec.skipped_none);
                        out.stats.add("skip.steps_nonfinite", rec.skipped_nonfinite);
                        if pa != pb {
                            out.stats.hit("reach.prefixes_differ");
                            if rec.compared > 0 {
                                out.nontrivial = true;
                            }
                        }
                        if pa.len() != pb.len() {
                            out.stats.hit("reach.prefix_lengths_differ");
                        }
                        if rec.decay[0] > 0.0 && rec.decay[2] < rec.decay[0] {
                            out.stats.hit("reach.difference_decayed_between_T4_and_T");
                        }
                        // worst ratio, in units of 1e-6 of the tolerance (additive stat keeps the max impossible; store buckets)
                        if rec.worst_ratio > 1e-3 {
                            out.stats.hit("margin.worst_ratio_above_1e-3");
                        }
                        if rec.worst_ratio > 1e-1 {
                            out.stats.hit("margin.worst_ratio_above_1e-1");
                        }
                        if let Some((t, d, tolabs)) = rec.viol {
                            // which node of the chain fails on its own?
                            let mut key = spec.k.name().to_string();
                            for node in chain_nodes(spec) {
                                let mut solo = node.clone();
                                solo.kids[0] = Spec::echo();
                                let (tl, fl) = tol_floor(&solo, s_scale);
                                if let Ok(r2) = recovery(&solo, &pa, &pb, &tail, fl, tl, stretch) {
                                    if r2.viol.is_some() {
                                        key = format!("{}{}", solo.k.name(), if solo.n <= 9 { "[n<=9]" } else { "[n>9]" });
                                        break;
                                    }
                                }
                            }
                            out.violation = Some(Violation::new(
                                "no_recovery",
                                key,
                                t,
                                format!("{}: {} deliveries after the two feeds became identical (horizon T={}), the replicas still differ by {:e} > {:e}; differences at T/4, T/2, T: {:?}", spec.show(), t, t_h, d, tolabs, rec.decay),
                            ));
                        }
                    }
                }
            }
            "bounded" => {
                if sc.feeds.is_empty() {
                    out.invalid = Some("bounded needs a feed".into());
                    return out;
                }
                let vals = sc.feeds[0].materialise();
                if vals.iter().any(|x| !x.is_finite() || x.abs() > s_scale * 1.0001) {
                    out.invalid = Some("feed not bounded by S".into());
                    return out;
                }
                let bound = ratio_bound(spec.k).unwrap_or(1.0e6 * s_scale.max(if spec.any(&|x| is_ratio(x.k)) { 6.0 } else { 0.0 }));
                let mut ctx = Ctx::default();
                let mut v = match try_build::<f64>(spec, &mut ctx) {
                    Ok(v) => v,
                    Err(_) => {
                        out.stats.hit("skip.ctor_rejected");
                        return out;
                    }
                };
                let mut h = Fnv::new();
                let mut n = 0usize;
                for x in &vals {
                    if try_update(&mut v, *x).is_err() {
                        out.stats.hit("skip.panic");
                        break;
                    }
                    let o = match try_last(&v) {
                        Ok(o) => o,
                        Err(_) => {
                            out.stats.hit("skip.panic");
                            break;
                        }
                    };
                    h.opt(o);
                    n += 1;
                    if let Some(y) = o {
                        if !y.is_finite() || y.abs() > bound {
                            let key = {
                                // innermost node that is unbounded on its own
                                let mut key = spec.k.name().to_string();
                                for node in chain_nodes(spec) {
                                    let mut solo = node.clone();
                                    solo.kids[0] = Spec::echo();
                                    let b2 = ratio_bound(solo.k).unwrap_or(1.0e6 * s_scale);
                                    let mut c2 = Ctx::default();
                                    if let Ok(mut w) = try_build::<f64>(&solo, &mut c2) {
                                        let mut badn = false;
                                        for x in &vals[..n] {
                                            if try_update(&mut w, *x).is_err() {
                                                break;
                                            }
                                            if let Ok(Some(z)) = try_last(&w) {
                                                if !z.is_finite() || z.abs() > b2 {
                                                    badn = true;
                                                    break;
                                                }
                                            }
                                        }
                                        if badn {
                                            key = format!("{}{}", solo.k.name(), if solo.n <= 9 { "[n<=9]" } else { "[n>9]" });
                                            break;
                                        }
                                    }
                                }
                                key
                            };
                            out.violation = Some(Violation::new("unbounded", key, n, format!("{}: output {} after {} deliveries of a feed bounded by S={} (bound {})", spec.show(), y, n, s_scale, bound)));
                            break;
                        }
                    }
                }
                out.stats.add("deliveries", n as u64);
                out.stats.add("oracle.bounded_steps", n as u64);
                if n >= 100_000 {
                    out.stats.hit("reach.run_1e5");
                    out.nontrivial = true;
                }
                if n >= 1_000_000 {
                    out.stats.hit("reach.run_1e6");
                }
                out.hist = h.0;
            }
            _ => out.invalid = Some("unknown mode".into()),
        }
        out
    }

    fn rule(&self) -> String {
        "Views cycle systematically through Ema (default and sampled alpha), LaguerreFilter (gamma in {0,0.1..0.9,0.95}), SuperSmoother, RoofingFilter(N,M<=16), CyberCycle, TrendFlex, ReFlex, LaguerreRSI and EhlersFisherTransform over {Ema, Sma, Alma, SuperSmoother, LaguerreFilter}; 30% of runs are two-level chains of these, a quarter of which have a third level. N: 50% from the view's minimum to 9, 37% 10..64, 9% 128, 4% 1000. Mode 'recovery' (7 of 8 runs): two replicas of the same tree; one base stream of 0-400 values gets an independent fault realisation per replica (drop, duplicate, reorder, corrupt, spike bursts up to 500 S - in 15% of the runs 5e5..5e11 S, with the horizon stretched by one third per decade above 1e3 -, up to 300 extra prefix values; S from 1e-12 to 1e9), then both receive the same persistently exciting tail inside [S/2,2S] (uniform noise or random walk; for all-linear chains also sinusoid+noise and exactly constant tails; for LaguerreRSI over the raw stream or a plain low-pass, possibly under further linear filters, also a slow strictly rising ramp, on which LaguerreRSI must end up reporting exactly 1 in both replicas; for EFT directly over the stream also tails that repeat with a period equal to, dividing or doubling the window length). Oracle: with T = T(view,N) from the documented pole radius, |out_A-out_B| <= tol*scale at every delivery from T to the end of the tail (2T, and in 1.5% of runs thousands to a million deliveries more) (tol 1e-9 linear, 1e-6 ratio-type; scale = max(S or output range, largest |out| in the window)). Mode 'feedback' (30% of the recovery runs whose chain consists of unit-gain low-passes only - Ema, SuperSmoother, LaguerreFilter, Sma, Alma): a closed-loop client; the replicas get independent prefixes inside [S/2,2S], then both receive H in [T,1.5T] copies of the value replica A itself reported at the merge (read from the real view at run time: a consumer bridging a data gap with the last reading) followed by 2T live values; same oracle, counted from the start of the hold. Mode 'bounded' (1 of 8): one replica, 1.4e5 (3%: 1.1e6; thorough 3e5, 8% 1.1e6) deliveries of a feed bounded by S in any of the 14 shapes; every output finite and within 1e6*S (linear) or the analytic bound 5 / 1 / ln199 (ratio-type). distinct = distinct (topology, feed lengths); non-trivial = prefixes actually differ and the window was compared, or a bounded run reached 1e5 deliveries."
            .into()
    }
    fn assumptions(&self) -> Vec<String> {
        vec![
            "windows at or above each view's minimum (CyberCycle 3, RoofingFilter/EFT/LaguerreRSI/ReFlex 2); Ema weight alpha/(N+1) < 1".into(),
            "ratio-type views (TrendFlex, ReFlex, LaguerreRSI, EFT) are compared only on persistently exciting tails: an exactly constant tail is 0/0 in the limit and its f64 behaviour is C16's subject".into(),
            "recovery mode skips steps where an output is None or non-finite (counted); non-finite output is a violation in bounded mode".into(),
            "horizons T are bounds with slack derived from the documented coefficients, not rate schedules; T/4 and T/2 differences are recorded, not asserted".into(),
        ]
    }
    fn must_reach(&self, _t: Tier) -> Vec<&'static str> {
        vec!["reach.prefixes_differ", "reach.prefix_lengths_differ", "reach.run_1e5", "fault.drop", "fault.dup", "fault.swap", "fault.corrupt", "fault.spike", "fault.extra_prefix", "oracle.steps_compared", "reach.feedback_hold_of_own_output"]
    }
}
