//! C08 — readiness: bounded progress in delivered values, never reverting, frozen while starved, finite.

use super::common::*;
use super::*;
use crate::dynview::{Ctx, Dyn};
use crate::engine::*;
use crate::feed::{gen_shape, SCALES, SHAPES};
use crate::gen::*;
use crate::rng::Fnv;
use crate::scenario::{Ev, Scenario};
use crate::spec::{Spec, K};

pub struct C08;

/// documented warm-up, in values delivered by the inner view: (None required for k < a, Some required for k >= b)
pub fn warmup(s: &Spec) -> Option<(usize, usize)> {
    let n = s.n;
    match s.k {
        K::Sma | K::Ema | K::EmaAlpha | K::SuperSmoother | K::Rsi | K::MyRsi => Some((n, n)),
        K::Roofing => Some((n + s.m + 1, n + s.m + 1)),
        K::LnReturn => Some((2, 2)),
        K::WelfordOnline | K::Vst | K::Vsct => Some((n.saturating_sub(1), n)),
        K::Min | K::Max | K::Cumulative | K::Alma | K::AlmaCustom | K::CoG | K::BinaryEntropy | K::Gte | K::Lte | K::Tanh | K::LaguerreFilter => Some((1, 1)),
        _ => None,
    }
}

const NS: &[usize] = &[1, 2, 3, 4, 5, 6, 7, 8, 9, 16, 33, 64];

impl C08 {
    fn systematic(&self, tier: Tier) -> u64 {
        let reps = if tier == Tier::Quick { 2 } else { 8 };
        (wrappers().len() * NS.len() * 4 * reps) as u64
    }
}

impl Prop for C08 {
    fn id(&self) -> &'static str {
        "C08"
    }
    fn runs(&self, tier: Tier) -> u64 {
        match tier {
            Tier::Quick => 400_000,
            Tier::Thorough => 8_000_000,
        }
    }
    fn generate(&self, i: u64, r: &mut Rng, tier: Tier) -> Scenario {
        let ws = wrappers();
        let sys = self.systematic(tier);
        let mut sc;
        let tree;
        if i < sys {
            // (a) every view directly over a stalled child
            sc = Scenario::new("C08", "stall");
            let k = ws[(i as usize) % ws.len()];
            let n = NS[(i as usize / ws.len()) % NS.len()];
            let dsel = (i as usize / (ws.len() * NS.len())) % 4;
            let d = match dsel {
                0 => 0,
                1 => 1,
                2 => n,
                _ => r.range(0, 2 * n + 3),
            };
            let leaf = Spec::stall(d, Spec::echo());
            let mk = crate::gen::pick_ma_kind(r);
            let mut ma = Spec::un(mk, r.range(1, 6), Spec::echo());
            gen_params(r, &mut ma, false);
            let mut s = wrap(r, k, n, leaf, Some(ma));
            gen_params(r, &mut s, false);
            tree = s;
        } else {
            // (b) random trees with stalls at several places
            sc = Scenario::new("C08", "tree");
            let depth = r.range(1, 3);
            let cfg = TreeCfg::full(depth, LeafMode::StallMix);
            tree = loop {
                let t = gen_tree(r, &cfg, depth, 3, false, false);
                if t.domain_ok_positive_feed() && t.k.arity() > 0 {
                    break t;
                }
            };
        }
        let sign = pick_feed_sign(r, std::slice::from_ref(&tree));
        let shape = crate::feed::shape_for(std::slice::from_ref(&tree), r.below(SHAPES.len()) as u8);
        let scale = crate::feed::pick_scale(r, !tree.needs_positive_feed() && !tree.contains(K::Mul));
        let ws_sum = tree.window_sum();
        let len = if tier == Tier::Thorough && r.chance(0.01) {
            r.range(20_000, 100_000)
        } else if r.chance(0.1) {
            r.range(1_000, 4_000)
        } else {
            r.range(1, 3 * ws_sum + 40)
        };
        let vals = crate::feed::gen_signed(r, shape, len, scale, sign);
        let p_obs = *r.pick(&[0.0, 0.1, 0.5]);
        sc.events = single_schedule(r, &vals, p_obs, true);
        // "for every view" includes a view that is a clone: in a quarter of the runs the replica is replaced by
        // its own clone at 1-3 points (mostly during the warm-up) and the oracles simply continue on the clone
        if tree.cloneable() && r.chance(0.25) {
            for _ in 0..r.range(1, 3) {
                let span = if r.chance(0.7) { (2 * ws_sum + 4).min(sc.events.len()) } else { sc.events.len() };
                let at = r.below(span + 1);
                sc.events.insert(at, Ev::F { r: 0 });
            }
        }
        // one run in eight: the same generic code instantiated at f32
        if r.chance(0.125) && scale >= 1e-4 && shape as usize % SHAPES.len() != 15 && crate::props::c15::f32_params_ok(&tree) {
            sc.set_int("f32", 1);
        }
        sc.trees.push(tree);
        sc.set_int("shape", shape as i64);
        sc
    }

    fn execute(&self, sc: &Scenario) -> RunOut {
        let mut out = RunOut::default();
        if let Err(e) = domain_check(sc, MAX_MAG) {
            out.invalid = Some(e);
            return out;
        }
        if sc.trees.is_empty() || sc.trees[0].k.arity() == 0 {
            out.invalid = Some("no tree".into());
            return out;
        }
        if sc.int("f32").unwrap_or(0) != 0 {
            // the generic code instantiated at f32 (see C15): moderate magnitudes, default-width ALMA
            let bad = sc.events.iter().any(|e| match *e {
                Ev::D { v, .. } => v != 0.0 && !(v.abs() >= 1e-6 && v.abs() <= MAX_MAG),
                _ => false,
            });
            if bad || !crate::props::c15::f32_params_ok(&sc.trees[0]) {
                out.invalid = Some("f32 mode needs magnitudes in {0} u [1e-6, 1e7], an ALMA sigma <= 6, and LnReturn/Drawdown directly over the stream".into());
                return out;
            }
            out.stats.hit("reach.instantiated_at_f32");
            run_c08::<f32>(sc, out, 1.0e15)
        } else {
            run_c08::<f64>(sc, out, MAX_NODE_INPUT)
        }
    }

    fn rule(&self) -> String {
        "Mode 'stall' (runs below the systematic bound): every wrapper (32 unary views, PFE, EFT) x N in {1..9,16,33,64} x stall length d in {0,1,N,random 0..2N+3}, built directly over Stall(d,Echo): the root's first inner value arrives at delivery d+1, so the documented warm-up table (two-sided: None before, Some from) is asserted in values delivered by the child. Mode 'tree': random trees of depth 1-3 with combinators, stalled leaves and stalled inner nodes; a stand-alone twin of the root's child tells when the root is starved and how many values the child has delivered, so the warm-up table is asserted for every listed root over any inner subtree as well. In a quarter of the runs the replica is replaced by its own clone at 1-3 points (mostly during the warm-up) and the oracles continue on the clone. Oracles after construction and after every event: readiness monotone, every reported value finite, answer bit-identical to the post-construction answer while the child has delivered nothing. Feeds: 14 workload shapes (constant, zeros, ties, zero-sum, volatile-then-flat, monotone, ...), scale 1e-3..1e6, lengths 1..3*(window sum)+40, 10% 1000-4000, thorough 1% 20k-100k. distinct = distinct (topology, event-kind schedule); non-trivial = at least one starved delivery was checked, or the warm-up table was evaluated after the child started delivering. One run in eight (where the feed's magnitudes are 0 or within [1e-6,1e7] a custom ALMA has sigma <= 6, LnReturn and Drawdown sit directly on the stream and there is no Divide) executes the library's generic code instantiated at f32 instead of f64; the oracles are the same."
            .into()
    }
    fn assumptions(&self) -> Vec<String> {
        vec![
            "inputs finite, magnitude 0 or within [1e-3,1e7]; positive feed and positivity-preserving subtrees where Drawdown/LnReturn/divisors occur".into(),
            "moderate magnitude holds for every node of a chain: a non-finite value is not a finding when the node that produced it had been fed a value beyond 1e100 by its own child (e.g. the standard deviation of a rate of change over a base of 1e-200); counted under skipped.immoderate_intermediate_magnitude. Tiny non-zero values are ordinary inputs".into(),
            "a panic ends the run and is counted under skipped.panic: crashes belong to C15".into(),
            "f32 runs: a custom ALMA keeps sigma <= 6 (the library's default): with a narrower Gaussian the weight of the first sample underflows to zero in f32 and the average is 0/0, exactly as it is in f64 beyond sigma ~ 27 - a limit of the parameter range, not of the call schedule; LnReturn/Drawdown only directly over the (positive) stream and no Divide, because 'an average of positive values is positive' does not survive f32 rounding of a running sum at a dynamic range of 1e6 (accuracy: C16); a value beyond 1e15 fed to a node by its own child counts as immoderate there (1e100 in f64)".into(),
            "'reports from the k-th value' is read as: nothing before the k-th delivered value, a value from the k-th on".into(),
            "built without debug assertions (the shipped configuration), so a non-finite value is observed instead of being pre-empted by the library's debug_assert".into(),
        ]
    }
    fn must_reach(&self, t: Tier) -> Vec<&'static str> {
        let mut v = vec!["reach.instantiated_at_f32", "reach.starved_delivery", "reach.ready_after_stall", "reach.became_ready", "oracle.warmup_none", "oracle.warmup_some", "oracle.frozen", "oracle.monotone"];
        if t == Tier::Thorough {
            v.push("reach.long_run_20k");
        }
        v
    }
}

fn lastf<T: crate::dynview::Scalar>(v: &Dyn<T>) -> Result<Option<f64>, PanicInfo> {
    try_last(v).map(|o| o.map(|x| x.f()))
}
fn updf<T: crate::dynview::Scalar>(v: &mut Dyn<T>, x: f64) -> Result<(), PanicInfo> {
    try_update(v, T::of(x))
}

/// the scenario against the tree instantiated at scalar type T (outputs are widened to f64 for the oracles)
fn run_c08<T: crate::dynview::Scalar>(sc: &Scenario, mut out: RunOut, node_limit: f64) -> RunOut {
        let spec = &sc.trees[0];
        let mut h = Fnv::new();
        let mut ctx = Ctx::default();
        let mut root = match try_build::<T>(spec, &mut ctx) {
            Ok(v) => v,
            Err(_) => {
                out.stats.hit("skip.ctor_rejected");
                return out;
            }
        };
        // the child of the root, stand-alone, tells when the root is being starved
        let child_spec = &spec.kids[0];
        let unary_like = spec.k.arity() == 1 || matches!(spec.k, K::Pfe | K::Eft);
        let mut child = if unary_like {
            match try_build::<T>(child_spec, &mut ctx) {
                Ok(v) => Some(v),
                Err(_) => None,
            }
        } else {
            None
        };
        // mode "stall": root directly over Stall(d, Echo): the documented warm-up table applies
        let direct_stall = unary_like && child_spec.k == K::Stall && child_spec.kids[0].k == K::Echo;
        // ... and, through the stand-alone twin of the child, to any root over any subtree: the table
        // counts values *delivered by the inner view*, whatever that inner view is
        let table = if unary_like && child.is_some() { warmup(spec) } else { None };
        if direct_stall {
            out.stats.hit("reach.root_directly_over_stall");
        }
        let initial = match lastf(&root) {
            Ok(v) => v,
            Err(_) => {
                out.stats.hit("skip.panic");
                return out;
            }
        };
        h.opt(initial);
        if let Some(x) = initial {
            if !x.is_finite() {
                out.violation = Some(Violation::new("nonfinite", "", 0, format!("last() right after construction returned {}", x)));
                return out;
            }
        }
        let mut ready = false; // last() was Some after some update
        let mut child_seen = 0usize; // values delivered by the child so far
        let mut starving = true;
        let mut deliveries = 0usize;
        let kinds = spec.kinds().join(",");
        'ev: for (step, e) in sc.events.iter().enumerate() {
            match *e {
                Ev::D { v, .. } => {
                    if updf(&mut root, v).is_err() {
                        out.stats.hit("skip.panic");
                        break 'ev;
                    }
                    deliveries += 1;
                    if let Some(c) = child.as_mut() {
                        if updf(c, v).is_err() {
                            child = None;
                        }
                    }
                    let child_some = match child.as_ref() {
                        Some(c) => match lastf(c) {
                            Ok(x) => Some(x.is_some()),
                            Err(_) => None,
                        },
                        None => None,
                    };
                    if child_some == Some(true) {
                        child_seen += 1;
                        starving = false;
                    } else if child_some.is_none() {
                        starving = false;
                    }
                    let o = match lastf(&root) {
                        Ok(o) => o,
                        Err(_) => {
                            out.stats.hit("skip.panic");
                            break 'ev;
                        }
                    };
                    h.opt(o);
                    out.stats.hit("ev.deliver");
                    // oracle 2: finite
                    if let Some(x) = o {
                        out.stats.hit("oracle.finite");
                        if !x.is_finite() {
                            out.violation = Some(Violation::new("nonfinite", "", step, format!("{} reported {} after delivery {} (value {})", spec.show(), x, deliveries, v)));
                            break 'ev;
                        }
                    }
                    // oracle 1: readiness never reverts
                    if ready {
                        out.stats.hit("oracle.monotone");
                        if o.is_none() {
                            out.violation = Some(Violation::new("readiness_reverted", "", step, format!("{} returned None at delivery {} after having reported a value", spec.show(), deliveries)));
                            break 'ev;
                        }
                    }
                    // oracle 3: frozen while the child has delivered nothing
                    if unary_like && starving && child_some == Some(false) {
                        out.stats.hit("oracle.frozen");
                        out.stats.hit("reach.starved_delivery");
                        out.nontrivial = true;
                        if o.map(f64::to_bits) != initial.map(f64::to_bits) {
                            out.violation = Some(Violation::new("changed_while_starved", "", step, format!("{} changed its answer from {:?} to {:?} at delivery {} although its inner view has delivered nothing yet", spec.show(), initial, o, deliveries)));
                            break 'ev;
                        }
                    }
                    // oracle 4: documented warm-up, counted in values delivered by the (stalled) child
                    if let (Some((a, b)), true) = (table, child.is_some()) {
                        let k = child_seen;
                        if k >= 1 {
                            out.nontrivial = true;
                        }
                        if k < a {
                            out.stats.hit("oracle.warmup_none");
                            if o.is_some() {
                                out.violation = Some(Violation::new("early_value", spec.k.name(), step, format!("{} reported {:?} after only {} delivered values (documented: nothing before {})", spec.show(), o, k, a)));
                                break 'ev;
                            }
                        }
                        if k >= b {
                            out.stats.hit("oracle.warmup_some");
                            if o.is_none() {
                                out.violation = Some(Violation::new("late_value", spec.k.name(), step, format!("{} still reports None after {} delivered values (documented: from {})", spec.show(), k, b)));
                                break 'ev;
                            }
                        }
                    }
                    if o.is_some() {
                        if !ready && spec.contains(K::Stall) {
                            out.stats.hit("reach.ready_after_stall");
                        }
                        ready = true;
                    }
                }
                Ev::F { .. } => {
                    if !spec.cloneable() {
                        continue;
                    }
                    match try_clone(&root) {
                        Ok(c) => {
                            let old = std::mem::replace(&mut root, c);
                            let _ = try_drop(old);
                            out.stats.hit("ev.fork");
                            if !ready {
                                out.stats.hit("reach.clone_during_warmup");
                            }
                            // the clone must answer like the original did
                            match lastf(&root) {
                                Ok(o) => {
                                    h.opt(o);
                                    if ready && o.is_none() {
                                        out.violation = Some(Violation::new("readiness_reverted", "", step, format!("{}: a clone taken after {} deliveries returns None although the original had reported a value", spec.show(), deliveries)));
                                        break 'ev;
                                    }
                                    if !ready && deliveries == 0 && o.map(f64::to_bits) != initial.map(f64::to_bits) {
                                        out.violation = Some(Violation::new("changed_while_starved", "", step, format!("{}: a clone of the never-updated view answers {:?}, the original answered {:?}", spec.show(), o, initial)));
                                        break 'ev;
                                    }
                                }
                                Err(_) => {
                                    out.stats.hit("skip.panic");
                                    break 'ev;
                                }
                            }
                        }
                        Err(_) => {
                            out.stats.hit("skip.panic");
                            break 'ev;
                        }
                    }
                }
                Ev::O { k, .. } => {
                    out.stats.add("ev.observe", k as u64);
                    for _ in 0..k {
                        match lastf(&root) {
                            Ok(o) => {
                                h.opt(o);
                                if let Some(x) = o {
                                    if !x.is_finite() {
                                        out.violation = Some(Violation::new("nonfinite", "", step, format!("{} reported {}", spec.show(), x)));
                                        break 'ev;
                                    }
                                }
                                if ready && o.is_none() {
                                    out.violation = Some(Violation::new("readiness_reverted", "", step, format!("{} returned None on a repeated last()", spec.show())));
                                    break 'ev;
                                }
                            }
                            Err(_) => {
                                out.stats.hit("skip.panic");
                                break 'ev;
                            }
                        }
                    }
                }
                _ => {}
            }
        }
        let _ = kinds;
        if out.violation.as_ref().map(|v| v.class == "nonfinite").unwrap_or(false) && fed_immoderate_magnitude_t::<T>(spec, &delivered_values(sc, 0), Symptom::NonFinite, node_limit) {
            // the chain itself produced a value beyond 1e100 and fed it to the node that then overflowed
            out.violation = None;
            out.stats.hit("skip.immoderate_intermediate_magnitude");
        }
        if let Some(v) = out.violation.as_mut() {
            if v.class == "nonfinite" {
                v.key = culprit_t::<T>(spec, &delivered_values(sc, 0), Symptom::NonFinite);
            } else if v.class == "readiness_reverted" {
                v.key = culprit_t::<T>(spec, &delivered_values(sc, 0), Symptom::Reverted);
            }
        }
        if deliveries >= 20_000 {
            out.stats.hit("reach.long_run_20k");
        }
        if spec.contains(K::Stall) && spec.any(&|s| s.k == K::Stall && s.m > 0) {
            out.stats.hit("reach.stalled_tree");
        }
        if ready {
            out.stats.hit("reach.became_ready");
        }
        out.stats.add("deliveries", deliveries as u64);
        let _ = try_drop(root);
        out.hist = h.0;
        out
}
