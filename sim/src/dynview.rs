//! One level of dynamic dispatch owned by the harness, so that the crate's statically nested generic
//! views (`Sma<T, Ema<T, Echo<T>>>`) can be composed at run time: `Sma<T, Dyn<T>>` is an ordinary
//! instantiation of the real generic code. Plus the stub components: Probe, Stall, Replay, WoMean/WoVar.

use crate::spec::{Spec, K};
use num::Float;
use sliding_features::pure_functions::*;
use sliding_features::rolling::*;
use sliding_features::sliding_windows::*;
use sliding_features::View;
use std::cell::Cell;
use std::fmt::Debug;
use std::sync::{Arc, Mutex};

/// the scalar types the harness instantiates the library at
pub trait Scalar: Float + Debug + 'static {
    fn of(x: f64) -> Self;
    fn f(self) -> f64;
    /// work meter of the scalar's arithmetic (0 for machine floats)
    fn work() -> u64 {
        0
    }
}
impl Scalar for f64 {
    #[inline]
    fn of(x: f64) -> f64 {
        x
    }
    #[inline]
    fn f(self) -> f64 {
        self
    }
}
impl Scalar for f32 {
    #[inline]
    fn of(x: f64) -> f32 {
        x as f32
    }
    #[inline]
    fn f(self) -> f64 {
        self as f64
    }
}

// No `Send` bound on purpose: a change that puts an `Rc` (a buffer shared between a view and its clones)
// into a view must still compile against the harness, because detecting it is C17's job.
pub trait DynView<T: Float>: View<T> {
    fn clone_box(&self) -> Box<dyn DynView<T>>;
    fn as_any(&self) -> &dyn std::any::Any;
    /// `Clone::clone_from` of the concrete type (restore this instance from `src`)
    fn clone_from_dyn(&mut self, src: &dyn DynView<T>);
}
impl<T: Float, V: View<T> + Clone + 'static> DynView<T> for V {
    fn clone_box(&self) -> Box<dyn DynView<T>> {
        Box::new(self.clone())
    }
    fn as_any(&self) -> &dyn std::any::Any {
        self
    }
    fn clone_from_dyn(&mut self, src: &dyn DynView<T>) {
        match src.as_any().downcast_ref::<V>() {
            Some(s) => self.clone_from(s),
            None => panic!("HARNESS: clone_from between different view types"),
        }
    }
}

pub struct Dyn<T: Float>(pub Box<dyn DynView<T>>);
impl<T: Float> Dyn<T> {
    pub fn new<V: View<T> + Clone + 'static>(v: V) -> Dyn<T> {
        Dyn(Box::new(v))
    }
}
// Replicas are handed between OS threads by C17's Migrate events. Exactly one thread runs at any time
// (the sender blocks on the reply channel, which also orders the memory accesses), so moving a value that
// is not `Send` (e.g. one holding an `Rc`) is sound here even when its clone lives on another thread.
unsafe impl<T: Float> Send for Dyn<T> {}

impl<T: Float> Clone for Dyn<T> {
    fn clone(&self) -> Self {
        Dyn(self.0.clone_box())
    }
    fn clone_from(&mut self, src: &Self) {
        self.0.clone_from_dyn(&*src.0)
    }
}
impl<T: Float> View<T> for Dyn<T> {
    #[inline]
    fn update(&mut self, val: T) {
        self.0.update(val)
    }
    #[inline]
    fn last(&self) -> Option<T> {
        self.0.last()
    }
}
impl<T: Float> Debug for Dyn<T> {
    fn fmt(&self, f: &mut std::fmt::Formatter<'_>) -> std::fmt::Result {
        f.write_str("Dyn")
    }
}

/// `Add` is the one view that does not derive Clone; the harness never forks a tree containing it.
struct AddNc<T: Float>(Add<T, Dyn<T>, Dyn<T>>);
impl<T: Float> Clone for AddNc<T> {
    fn clone(&self) -> Self {
        panic!("HARNESS: Add is not Clone; trees containing it must not be forked")
    }
}
impl<T: Float> View<T> for AddNc<T> {
    fn update(&mut self, val: T) {
        self.0.update(val)
    }
    fn last(&self) -> Option<T> {
        self.0.last()
    }
}

thread_local! {
    /// global event number of the delivery in progress (set by the executor before every root.update)
    pub static EVENT_NO: Cell<u64> = const { Cell::new(0) };
}

pub type ProbeLog = Arc<Mutex<Vec<(u64, u64)>>>;

/// Echo semantics + append-only delivery log (event number, value bits); optionally stalled for `d` deliveries.
#[derive(Clone)]
struct Probe<T> {
    out: Option<T>,
    seen: usize,
    d: usize,
    log: ProbeLog,
}
impl<T: Scalar> View<T> for Probe<T> {
    fn update(&mut self, val: T) {
        let ev = EVENT_NO.with(|e| e.get());
        self.log.lock().unwrap().push((ev, val.f().to_bits()));
        self.seen += 1;
        if self.seen > self.d {
            self.out = Some(val);
        }
    }
    fn last(&self) -> Option<T> {
        self.out
    }
}

/// A slow node: forwards to its child but reports nothing until the child has produced `d` outputs.
#[derive(Clone)]
struct Stall<T: Float> {
    inner: Dyn<T>,
    seen: usize,
    d: usize,
}
impl<T: Float> View<T> for Stall<T> {
    fn update(&mut self, val: T) {
        self.inner.update(val);
        if self.inner.last().is_some() {
            self.seen += 1;
        }
    }
    fn last(&self) -> Option<T> {
        if self.seen > self.d {
            self.inner.last()
        } else {
            None
        }
    }
}

/// Ignores its input and plays back a recorded output sequence (stand-in for an already-evaluated child).
#[derive(Clone)]
struct Replay<T> {
    script: Arc<Vec<Option<f64>>>,
    i: usize,
    _m: std::marker::PhantomData<T>,
}
impl<T: Scalar> View<T> for Replay<T> {
    fn update(&mut self, _val: T) {
        self.i += 1;
    }
    fn last(&self) -> Option<T> {
        if self.i == 0 {
            None
        } else {
            self.script.get(self.i - 1).copied().flatten().map(T::of)
        }
    }
}

#[derive(Clone)]
struct WoAcc<T: Float> {
    w: WelfordOnline<T, Dyn<T>>,
    var: bool,
}
impl<T: Float> View<T> for WoAcc<T> {
    fn update(&mut self, val: T) {
        self.w.update(val)
    }
    fn last(&self) -> Option<T> {
        self.w.last()?;
        Some(if self.var { self.w.variance() } else { self.w.mean() })
    }
}

#[derive(Default)]
pub struct Ctx {
    pub probes: Vec<ProbeLog>,
    pub scripts: Vec<Arc<Vec<Option<f64>>>>,
}

/// Instantiate the real generic views according to `s`. Constructor panics propagate to the caller.
pub fn build<T: Scalar>(s: &Spec, ctx: &mut Ctx) -> Dyn<T> {
    let mut kid = |i: usize, ctx: &mut Ctx| build::<T>(&s.kids[i], ctx);
    let n = s.n;
    match s.k {
        K::Echo => Dyn::new(Echo::<T>::new()),
        K::Const => Dyn::new(Constant::new(T::of(s.p))),
        K::Probe => {
            let log: ProbeLog = Arc::new(Mutex::new(Vec::new()));
            ctx.probes.push(log.clone());
            Dyn::new(Probe::<T> { out: None, seen: 0, d: s.m, log })
        }
        K::Replay => Dyn::new(Replay::<T> { script: ctx.scripts[s.m].clone(), i: 0, _m: Default::default() }),
        K::Stall => Dyn::new(Stall { inner: kid(0, ctx), seen: 0, d: s.m }),
        K::Tanh => Dyn::new(Tanh::new(kid(0, ctx))),
        K::Gte => Dyn::new(GTE::new(kid(0, ctx), T::of(s.p))),
        K::Lte => Dyn::new(LTE::new(kid(0, ctx), T::of(s.p))),
        K::Drawdown => Dyn::new(Drawdown::new(kid(0, ctx))),
        K::LnReturn => Dyn::new(LnReturn::new(kid(0, ctx))),
        K::WelfordRolling => Dyn::new(WelfordRolling::new(kid(0, ctx))),
        K::Sma => Dyn::new(Sma::new(kid(0, ctx), n)),
        K::Ema => Dyn::new(Ema::new(kid(0, ctx), n)),
        K::EmaAlpha => Dyn::new(Ema::with_alpha(kid(0, ctx), n, T::of(s.p))),
        K::Alma => Dyn::new(Alma::new(kid(0, ctx), n)),
        K::AlmaCustom => Dyn::new(Alma::new_custom(kid(0, ctx), n, T::of(s.p), T::of(s.q))),
        K::Cumulative => Dyn::new(Cumulative::new(kid(0, ctx), n)),
        K::Min => Dyn::new(Min::new(kid(0, ctx), n)),
        K::Max => Dyn::new(Max::new(kid(0, ctx), n)),
        K::WelfordOnline => Dyn::new(WelfordOnline::new(kid(0, ctx), n)),
        K::WoMean => Dyn::new(WoAcc { w: WelfordOnline::new(kid(0, ctx), n), var: false }),
        K::WoVar => Dyn::new(WoAcc { w: WelfordOnline::new(kid(0, ctx), n), var: true }),
        K::HLNormalizer => Dyn::new(HLNormalizer::new(kid(0, ctx), n)),
        K::Roc => Dyn::new(Roc::new(kid(0, ctx), n)),
        K::BinaryEntropy => Dyn::new(BinaryEntropy::new(kid(0, ctx), n)),
        K::Vst => Dyn::new(Vst::new(kid(0, ctx), n)),
        K::Vsct => Dyn::new(Vsct::new(kid(0, ctx), n)),
        K::Rsi => Dyn::new(Rsi::new(kid(0, ctx), n)),
        K::MyRsi => Dyn::new(MyRSI::new(kid(0, ctx), n)),
        K::CoG => Dyn::new(CenterOfGravity::new(kid(0, ctx), n)),
        K::Cti => Dyn::new(CorrelationTrendIndicator::new(kid(0, ctx), n)),
        K::Net => Dyn::new(NoiseEliminationTechnology::new(kid(0, ctx), n)),
        K::SuperSmoother => Dyn::new(SuperSmoother::new(kid(0, ctx), n)),
        K::Roofing => Dyn::new(RoofingFilter::new(kid(0, ctx), n, s.m)),
        K::LaguerreFilter => Dyn::new(LaguerreFilter::new(kid(0, ctx), T::of(s.p))),
        K::LaguerreRsi => Dyn::new(LaguerreRSI::new(kid(0, ctx), n)),
        K::CyberCycle => Dyn::new(CyberCycle::new(kid(0, ctx), n)),
        K::TrendFlex => Dyn::new(TrendFlex::new(kid(0, ctx), n)),
        K::ReFlex => Dyn::new(ReFlex::new(kid(0, ctx), n)),
        K::Add => {
            let a = kid(0, ctx);
            let b = kid(1, ctx);
            Dyn::new(AddNc(Add::new(a, b)))
        }
        K::Sub => {
            let a = kid(0, ctx);
            let b = kid(1, ctx);
            Dyn::new(Subtract::new(a, b))
        }
        K::Mul => {
            let a = kid(0, ctx);
            let b = kid(1, ctx);
            Dyn::new(Multiply::new(a, b))
        }
        K::Div => {
            let a = kid(0, ctx);
            let b = kid(1, ctx);
            Dyn::new(Divide::new(a, b))
        }
        K::Pfe => {
            let v = kid(0, ctx);
            let ma = kid(1, ctx);
            Dyn::new(PolarizedFractalEfficiency::new(v, ma, n))
        }
        K::Eft => {
            let v = kid(0, ctx);
            let ma = kid(1, ctx);
            Dyn::new(EhlersFisherTransform::new(v, ma, n))
        }
    }
}
