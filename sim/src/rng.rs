//! The one source of randomness: xoshiro256** seeded through splitmix64.
//! Everything a run does is derived from one u64.

#[derive(Clone, Debug)]
pub struct Rng {
    s: [u64; 4],
}

#[inline]
pub fn splitmix(x: &mut u64) -> u64 {
    *x = x.wrapping_add(0x9E37_79B9_7F4A_7C15);
    let mut z = *x;
    z = (z ^ (z >> 30)).wrapping_mul(0xBF58_476D_1CE4_E5B9);
    z = (z ^ (z >> 27)).wrapping_mul(0x94D0_49BB_1331_11EB);
    z ^ (z >> 31)
}

/// seed of run `i` of property `prop` under base seed `base`
pub fn run_seed(base: u64, prop: &str, i: u64) -> u64 {
    let mut h: u64 = 0xcbf2_9ce4_8422_2325;
    for b in prop.bytes() {
        h ^= b as u64;
        h = h.wrapping_mul(0x0000_0100_0000_01B3);
    }
    let mut x = base ^ h.rotate_left(17);
    let a = splitmix(&mut x);
    let mut y = a ^ i.wrapping_mul(0xD6E8_FEB8_6659_FD93);
    splitmix(&mut y)
}

impl Rng {
    pub fn new(seed: u64) -> Rng {
        let mut x = seed;
        let s = [splitmix(&mut x), splitmix(&mut x), splitmix(&mut x), splitmix(&mut x)];
        Rng { s }
    }
    #[inline]
    pub fn next_u64(&mut self) -> u64 {
        let r = self.s[1].wrapping_mul(5).rotate_left(7).wrapping_mul(9);
        let t = self.s[1] << 17;
        self.s[2] ^= self.s[0];
        self.s[3] ^= self.s[1];
        self.s[1] ^= self.s[2];
        self.s[0] ^= self.s[3];
        self.s[2] ^= t;
        self.s[3] = self.s[3].rotate_left(45);
        r
    }
    /// uniform in 0..n (n>0)
    #[inline]
    pub fn below(&mut self, n: usize) -> usize {
        debug_assert!(n > 0);
        ((self.next_u64() >> 11) % (n as u64)) as usize
    }
    /// uniform in lo..=hi
    #[inline]
    pub fn range(&mut self, lo: usize, hi: usize) -> usize {
        lo + self.below(hi - lo + 1)
    }
    /// uniform in [0,1)
    #[inline]
    pub fn unit(&mut self) -> f64 {
        (self.next_u64() >> 11) as f64 / (1u64 << 53) as f64
    }
    #[inline]
    pub fn uniform(&mut self, lo: f64, hi: f64) -> f64 {
        lo + (hi - lo) * self.unit()
    }
    #[inline]
    pub fn chance(&mut self, p: f64) -> bool {
        self.unit() < p
    }
    pub fn pick<'a, T>(&mut self, xs: &'a [T]) -> &'a T {
        &xs[self.below(xs.len())]
    }
    /// roughly normal(0,1): sum of 4 uniforms, centred and scaled
    pub fn gauss(&mut self) -> f64 {
        let s = self.unit() + self.unit() + self.unit() + self.unit();
        (s - 2.0) * 1.732_050_807_568_877_2
    }
    pub fn fork(&mut self) -> Rng {
        Rng::new(self.next_u64())
    }
}

/// FNV-1a style running hash used for history hashes (no addresses, no hasher seeds).
#[derive(Clone, Copy, Debug)]
pub struct Fnv(pub u64);
impl Fnv {
    pub fn new() -> Fnv {
        Fnv(0xcbf2_9ce4_8422_2325)
    }
    #[inline]
    pub fn u64(&mut self, v: u64) {
        let mut h = self.0;
        for i in 0..8 {
            h ^= (v >> (8 * i)) & 0xff;
            h = h.wrapping_mul(0x0000_0100_0000_01B3);
        }
        self.0 = h;
    }
    pub fn bytes(&mut self, b: &[u8]) {
        let mut h = self.0;
        for x in b {
            h ^= *x as u64;
            h = h.wrapping_mul(0x0000_0100_0000_01B3);
        }
        self.0 = h;
    }
    pub fn opt(&mut self, v: Option<f64>) {
        match v {
            None => self.u64(0x7ff8_dead_0000_0001),
            Some(x) => {
                self.u64(1);
                self.u64(x.to_bits())
            }
        }
    }
}
