//! A scenario is the complete, explicit description of one simulated run: trees, feeds with concrete
//! values, the event schedule and a few integers. Executing a scenario draws no randomness, so a
//! scenario file *is* the replay file. Every value in the representable space is a valid scenario
//! (events naming a missing replica are no-ops), which is what lets the minimiser delete freely.

use crate::rng::{Fnv, Rng};
use crate::spec::Spec;
use serde_json::{json, Value};

#[derive(Clone, Copy, Debug, PartialEq)]
pub enum Ev {
    /// deliver value `v` to replica `r` (then observe once). `tag` names the feed fault that produced it.
    D { r: u8, v: f64, tag: u8 },
    /// a message the feed lost: nothing is delivered (kept so that fired faults are countable)
    L { r: u8 },
    /// call last() k times
    O { r: u8, k: u8 },
    /// fork: clone replica r into a new replica (next free index)
    F { r: u8 },
    /// drop replica r
    X { r: u8 },
    /// migrate replica r to worker thread th (0 = the run's own thread)
    M { r: u8, th: u8 },
    /// restore replica r from replica `src` with `Clone::clone_from` (same spec only)
    C { r: u8, src: u8 },
}

pub const TAGS: &[&str] = &["clean", "dup", "swap", "corrupt", "spike", "extra_prefix", "silent"];
/// delivery tag: update() only, no last() afterwards
pub const SILENT: u8 = 6;

impl Ev {
    pub fn kind_code(&self) -> u64 {
        match self {
            Ev::D { r, tag, .. } => 1 + 16 * (*r as u64) + 256 * (*tag as u64),
            Ev::L { r } => 2 + 16 * (*r as u64),
            Ev::O { r, k } => 3 + 16 * (*r as u64) + 256 * (*k as u64),
            Ev::F { r } => 4 + 16 * (*r as u64),
            Ev::X { r } => 5 + 16 * (*r as u64),
            Ev::M { r, th } => 6 + 16 * (*r as u64) + 256 * (*th as u64),
            Ev::C { r, src } => 7 + 16 * (*r as u64) + 256 * (*src as u64),
        }
    }
    pub fn replica(&self) -> u8 {
        match *self {
            Ev::D { r, .. } | Ev::L { r } | Ev::O { r, .. } | Ev::F { r } | Ev::X { r } | Ev::M { r, .. } | Ev::C { r, .. } => r,
        }
    }
    /// one compact string per event, e.g. "D 0 3ff0000000000000 0 (1)" = deliver bits to replica 0, fault tag 0
    fn to_json(&self) -> Value {
        Value::String(match *self {
            Ev::D { r, v, tag } => format!("D {} {:016x} {} ({})", r, v.to_bits(), tag, v),
            Ev::L { r } => format!("L {}", r),
            Ev::O { r, k } => format!("O {} {}", r, k),
            Ev::F { r } => format!("F {}", r),
            Ev::X { r } => format!("X {}", r),
            Ev::M { r, th } => format!("M {} {}", r, th),
            Ev::C { r, src } => format!("C {} {}", r, src),
        })
    }
    fn from_json(v: &Value) -> Result<Ev, String> {
        let s = v.as_str().ok_or("event not a string")?;
        let a: Vec<&str> = s.split_whitespace().collect();
        let t = *a.first().ok_or("empty event")?;
        let u = |i: usize| -> Result<u8, String> { a.get(i).and_then(|x| x.parse::<u8>().ok()).ok_or(format!("event field {} in '{}'", i, s)) };
        Ok(match t {
            "D" => {
                let bits = u64::from_str_radix(a.get(2).ok_or("D bits")?, 16).map_err(|e| e.to_string())?;
                Ev::D { r: u(1)?, v: f64::from_bits(bits), tag: u(3)? }
            }
            "L" => Ev::L { r: u(1)? },
            "O" => Ev::O { r: u(1)?, k: u(2)? },
            "F" => Ev::F { r: u(1)? },
            "X" => Ev::X { r: u(1)? },
            "M" => Ev::M { r: u(1)?, th: u(2)? },
            "C" => Ev::C { r: u(1)?, src: u(2)? },
            _ => return Err(format!("unknown event {}", t)),
        })
    }
}

/// A feed: either literal values or a compact generator description (long streams).
#[derive(Clone, Debug, PartialEq)]
pub enum Feed {
    Lit(Vec<f64>),
    /// `quant` > 0: values are rounded to multiples of it (keeps exact-arithmetic runs on a dyadic grid)
    Gen { seed: u64, shape: u8, len: usize, scale: f64, positive: bool, quant: f64 },
}

impl Feed {
    pub fn len(&self) -> usize {
        match self {
            Feed::Lit(v) => v.len(),
            Feed::Gen { len, .. } => *len,
        }
    }
    pub fn materialise(&self) -> Vec<f64> {
        match self {
            Feed::Lit(v) => v.clone(),
            Feed::Gen { seed, shape, len, scale, positive, quant } => {
                let mut r = Rng::new(*seed);
                let mut v = crate::feed::gen_shape(&mut r, *shape, *len, *scale, *positive);
                if *quant > 0.0 {
                    for x in v.iter_mut() {
                        *x = (*x / *quant).round() * *quant;
                    }
                }
                v
            }
        }
    }
    fn to_json(&self) -> Value {
        match self {
            Feed::Lit(v) => json!({
                "lit_bits": v.iter().map(|x| format!("{:016x}", x.to_bits())).collect::<Vec<_>>(),
                "lit": v,
            }),
            Feed::Gen { seed, shape, len, scale, positive, quant } => json!({
                "gen": {"seed": format!("{:016x}", seed), "shape": shape, "len": len,
                         "scale_bits": format!("{:016x}", scale.to_bits()), "scale": scale, "positive": positive,
                         "quant_bits": format!("{:016x}", quant.to_bits()), "quant": quant}
            }),
        }
    }
    fn from_json(v: &Value) -> Result<Feed, String> {
        if let Some(a) = v["lit_bits"].as_array() {
            let mut out = Vec::with_capacity(a.len());
            for x in a {
                let b = u64::from_str_radix(x.as_str().ok_or("lit_bits entry")?, 16).map_err(|e| e.to_string())?;
                out.push(f64::from_bits(b));
            }
            return Ok(Feed::Lit(out));
        }
        let g = &v["gen"];
        if g.is_object() {
            return Ok(Feed::Gen {
                seed: u64::from_str_radix(g["seed"].as_str().ok_or("gen.seed")?, 16).map_err(|e| e.to_string())?,
                shape: g["shape"].as_u64().ok_or("gen.shape")? as u8,
                len: g["len"].as_u64().ok_or("gen.len")? as usize,
                scale: f64::from_bits(u64::from_str_radix(g["scale_bits"].as_str().ok_or("gen.scale_bits")?, 16).map_err(|e| e.to_string())?),
                positive: g["positive"].as_bool().unwrap_or(false),
                quant: g["quant_bits"].as_str().and_then(|s| u64::from_str_radix(s, 16).ok()).map(f64::from_bits).unwrap_or(0.0),
            });
        }
        Err("feed: neither lit_bits nor gen".into())
    }
}

#[derive(Clone, Debug, PartialEq)]
pub struct Scenario {
    pub prop: String,
    /// sub-scenario label, interpreted by the property (e.g. "exact", "f64", "recovery", "bounded")
    pub mode: String,
    pub trees: Vec<Spec>,
    pub feeds: Vec<Feed>,
    pub events: Vec<Ev>,
    /// who-goes-next bits for two-replica scenarios
    pub sched: Vec<u8>,
    pub ints: Vec<(String, i64)>,
    /// bookkeeping written by the generator (fault counts fired while building the feeds); not used by execution
    pub gen_stats: Vec<(String, u64)>,
}

impl Scenario {
    pub fn new(prop: &str, mode: &str) -> Scenario {
        Scenario { prop: prop.into(), mode: mode.into(), trees: vec![], feeds: vec![], events: vec![], sched: vec![], ints: vec![], gen_stats: vec![] }
    }
    pub fn int(&self, k: &str) -> Option<i64> {
        self.ints.iter().find(|(n, _)| n == k).map(|(_, v)| *v)
    }
    pub fn set_int(&mut self, k: &str, v: i64) {
        if let Some(e) = self.ints.iter_mut().find(|(n, _)| n == k) {
            e.1 = v;
        } else {
            self.ints.push((k.into(), v));
        }
    }
    pub fn stat(&mut self, k: &str, by: u64) {
        if let Some(e) = self.gen_stats.iter_mut().find(|(n, _)| n == k) {
            e.1 += by;
        } else {
            self.gen_stats.push((k.into(), by));
        }
    }
    pub fn to_json(&self) -> Value {
        json!({
            "format": "sliding_features-sim-scenario-1",
            "property": self.prop,
            "mode": self.mode,
            "trees": self.trees.iter().map(|t| t.to_json()).collect::<Vec<_>>(),
            "trees_shown": self.trees.iter().map(|t| t.show()).collect::<Vec<_>>(),
            "feeds": self.feeds.iter().map(|f| f.to_json()).collect::<Vec<_>>(),
            "events": self.events.iter().map(|e| e.to_json()).collect::<Vec<_>>(),
            "sched": self.sched,
            "ints": self.ints.iter().map(|(k, v)| json!([k, v])).collect::<Vec<_>>(),
            "gen_stats": self.gen_stats.iter().map(|(k, v)| json!([k, v])).collect::<Vec<_>>(),
        })
    }
    pub fn from_json(v: &Value) -> Result<Scenario, String> {
        let mut s = Scenario::new(v["property"].as_str().ok_or("property")?, v["mode"].as_str().unwrap_or(""));
        for t in v["trees"].as_array().ok_or("trees")? {
            s.trees.push(Spec::from_json(t)?);
        }
        if let Some(a) = v["feeds"].as_array() {
            for f in a {
                s.feeds.push(Feed::from_json(f)?);
            }
        }
        if let Some(a) = v["events"].as_array() {
            for e in a {
                s.events.push(Ev::from_json(e)?);
            }
        }
        if let Some(a) = v["sched"].as_array() {
            s.sched = a.iter().map(|x| x.as_u64().unwrap_or(0) as u8).collect();
        }
        if let Some(a) = v["ints"].as_array() {
            for e in a {
                s.ints.push((e[0].as_str().ok_or("ints key")?.to_string(), e[1].as_i64().ok_or("ints val")?));
            }
        }
        if let Some(a) = v["gen_stats"].as_array() {
            for e in a {
                s.gen_stats.push((e[0].as_str().unwrap_or("").to_string(), e[1].as_u64().unwrap_or(0)));
            }
        }
        Ok(s)
    }
    /// hash of the topology plus the *kind* sequence of the schedule (values excluded): the
    /// "distinct interleaving" measure reported in evidence.
    pub fn shape_hash(&self) -> u64 {
        let mut h = Fnv::new();
        h.bytes(self.mode.as_bytes());
        for t in &self.trees {
            t.hash_into(&mut h);
        }
        for e in &self.events {
            h.u64(e.kind_code());
        }
        for f in &self.feeds {
            h.u64(f.len() as u64);
        }
        for s in &self.sched {
            h.u64(*s as u64);
        }
        for (k, v) in &self.ints {
            h.bytes(k.as_bytes());
            h.u64(*v as u64);
        }
        h.0
    }
    pub fn topo_hash(&self) -> u64 {
        let mut h = Fnv::new();
        for t in &self.trees {
            t.hash_into(&mut h);
        }
        h.0
    }
    /// short one-line description used as a sample in evidence
    pub fn brief(&self) -> Value {
        let mut ev = String::new();
        for e in self.events.iter().take(40) {
            match e {
                Ev::D { r, v, tag } => ev.push_str(&format!("D{}({}{}) ", r, v, if *tag > 0 { format!("!{}", TAGS[(*tag as usize).min(TAGS.len() - 1)]) } else { String::new() })),
                Ev::L { r } => ev.push_str(&format!("L{} ", r)),
                Ev::O { r, k } => ev.push_str(&format!("O{}x{} ", r, k)),
                Ev::F { r } => ev.push_str(&format!("F{} ", r)),
                Ev::X { r } => ev.push_str(&format!("X{} ", r)),
                Ev::M { r, th } => ev.push_str(&format!("M{}->t{} ", r, th)),
                Ev::C { r, src } => ev.push_str(&format!("C{}<-{} ", r, src)),
            }
        }
        if self.events.len() > 40 {
            ev.push_str(&format!("... ({} events)", self.events.len()));
        }
        json!({
            "mode": self.mode,
            "trees": self.trees.iter().map(|t| t.show()).collect::<Vec<_>>(),
            "feeds": self.feeds.iter().map(|f| match f {
                Feed::Lit(v) => json!({"len": v.len(), "head": v.iter().take(8).collect::<Vec<_>>()}),
                Feed::Gen{seed, shape, len, scale, positive, ..} => json!({"gen_seed": format!("{:x}", seed), "shape": crate::feed::SHAPES[*shape as usize % crate::feed::SHAPES.len()], "len": len, "scale": scale, "positive": positive}),
            }).collect::<Vec<_>>(),
            "events": ev,
            "ints": self.ints.iter().map(|(k, v)| format!("{}={}", k, v)).collect::<Vec<_>>(),
        })
    }
}
