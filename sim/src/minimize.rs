//! Scenario minimisation: shrink events, feeds, schedule, trees and values while the *same violation
//! signature* (class + root-cause key) of the same property persists. Deterministic, budgeted.

use crate::props::{Prop, Violation};
use crate::scenario::{Ev, Feed, Scenario};
use crate::spec::{Spec, K};

pub struct Minimised {
    pub scenario: Scenario,
    pub violation: Violation,
    pub executions: usize,
}

struct M<'a> {
    prop: &'a dyn Prop,
    sig: String,
    budget: usize,
    used: usize,
    best: Scenario,
    best_v: Violation,
}

impl<'a> M<'a> {
    /// try a candidate; adopt it if it still shows the same violation signature
    fn attempt(&mut self, cand: Scenario) -> bool {
        if self.used >= self.budget || cand == self.best {
            return false;
        }
        self.used += 1;
        let out = crate::runner::exec_hermetic(self.prop, &cand);
        if out.invalid.is_some() {
            return false;
        }
        if let Some(v) = out.violation {
            if v.sig() == self.sig {
                self.best = cand;
                self.best_v = v;
                return true;
            }
        }
        false
    }

    fn shrink_events(&mut self) -> bool {
        let mut progress = false;
        // drop everything after the violation step first
        let step = self.best_v.step;
        if step + 1 < self.best.events.len() {
            let mut c = self.best.clone();
            c.events.truncate(step + 1);
            progress |= self.attempt(c);
        }
        // remove all events of one replica
        for r in 0..8u8 {
            if self.best.events.iter().any(|e| e.replica() == r) && self.best.events.iter().any(|e| e.replica() != r) {
                let mut c = self.best.clone();
                c.events.retain(|e| e.replica() != r);
                progress |= self.attempt(c);
            }
        }
        // remove non-delivery events wholesale
        {
            let mut c = self.best.clone();
            c.events.retain(|e| matches!(e, Ev::D { .. }));
            if c.events.len() < self.best.events.len() {
                progress |= self.attempt(c);
            }
        }
        // chunked deletion
        let mut chunk = (self.best.events.len() / 2).max(1);
        loop {
            let mut i = 0;
            while i < self.best.events.len() {
                if self.used >= self.budget {
                    return progress;
                }
                let mut c = self.best.clone();
                let end = (i + chunk).min(c.events.len());
                c.events.drain(i..end);
                if self.attempt(c) {
                    progress = true;
                } else {
                    i += chunk;
                }
            }
            if chunk == 1 {
                break;
            }
            chunk /= 2;
        }
        progress
    }

    fn shrink_feeds(&mut self) -> bool {
        let mut progress = false;
        for fi in 0..self.best.feeds.len() {
            // generator feeds: halve the length, then turn literal when small
            loop {
                let cur = self.best.feeds[fi].clone();
                match cur {
                    Feed::Gen { seed, shape, len, scale, positive, quant } => {
                        let mut done = true;
                        for nl in [len / 2, len * 3 / 4, len - len / 8] {
                            if nl < len && nl > 0 {
                                let mut c = self.best.clone();
                                c.feeds[fi] = Feed::Gen { seed, shape, len: nl, scale, positive, quant };
                                if self.attempt(c) {
                                    progress = true;
                                    done = false;
                                    break;
                                }
                            }
                        }
                        if done {
                            if len <= 4096 {
                                let mut c = self.best.clone();
                                c.feeds[fi] = Feed::Lit(cur.materialise());
                                if self.attempt(c) {
                                    progress = true;
                                    continue;
                                }
                            }
                            break;
                        }
                    }
                    Feed::Lit(_) => break,
                }
                if self.used >= self.budget {
                    return progress;
                }
            }
            // literal feeds: chunked deletion
            if let Feed::Lit(v) = &self.best.feeds[fi] {
                let mut chunk = (v.len() / 2).max(1);
                loop {
                    let mut i = 0;
                    loop {
                        let len = self.best.feeds[fi].len();
                        if i >= len || self.used >= self.budget {
                            break;
                        }
                        let mut c = self.best.clone();
                        if let Feed::Lit(v) = &mut c.feeds[fi] {
                            let end = (i + chunk).min(v.len());
                            v.drain(i..end);
                        }
                        if self.attempt(c) {
                            progress = true;
                        } else {
                            i += chunk;
                        }
                    }
                    if chunk == 1 {
                        break;
                    }
                    chunk /= 2;
                }
            }
        }
        if !self.best.sched.is_empty() {
            let mut c = self.best.clone();
            c.sched.clear();
            progress |= self.attempt(c);
        }
        progress
    }

    fn tree_candidates(t: &Spec) -> Vec<Spec> {
        let mut out = vec![];
        // hoist a child in place of the node
        for kid in &t.kids {
            if kid.k.arity() > 0 || t.k.arity() > 0 {
                out.push(kid.clone());
            }
        }
        // replace Stall by its child / shorten the stall
        if t.k == K::Stall || t.k == K::Probe {
            if t.m > 0 {
                for m in [0, t.m / 2, t.m - 1] {
                    if m < t.m {
                        out.push(Spec { m, ..t.clone() });
                    }
                }
            }
        }
        // smaller window
        if t.k.has_n() {
            for n in [1, 2, 3, t.n / 2, t.n.saturating_sub(1)] {
                if n >= 1 && n < t.n {
                    out.push(Spec { n, ..t.clone() });
                }
            }
        }
        if t.k == K::Roofing {
            for m in [1, 2, t.m / 2, t.m.saturating_sub(1)] {
                if m >= 1 && m < t.m {
                    out.push(Spec { m, ..t.clone() });
                }
            }
        }
        // simpler secondary parameters
        match t.k {
            K::EmaAlpha => {
                if t.p != 1.0 {
                    out.push(Spec { p: 1.0, ..t.clone() })
                }
                out.push(Spec { k: K::Ema, p: 0.0, ..t.clone() });
            }
            K::AlmaCustom => out.push(Spec { k: K::Alma, p: 0.0, q: 0.0, ..t.clone() }),
            K::LaguerreFilter => {
                for g in [0.0, 0.5] {
                    if t.p != g {
                        out.push(Spec { p: g, ..t.clone() })
                    }
                }
            }
            K::Gte | K::Lte | K::Const => {
                for c in [0.0, 1.0] {
                    if t.p != c {
                        out.push(Spec { p: c, ..t.clone() })
                    }
                }
            }
            _ => {}
        }
        // a subtree becomes a plain Echo leaf
        if t.k.arity() > 0 {
            out.push(Spec::echo());
        }
        // recurse: candidates that change one child
        for (i, kid) in t.kids.iter().enumerate() {
            for c in Self::tree_candidates(kid) {
                let mut n = t.clone();
                n.kids[i] = c;
                out.push(n);
            }
        }
        out
    }

    fn shrink_trees(&mut self) -> bool {
        let mut progress = false;
        for ti in 0..self.best.trees.len() {
            loop {
                let cands = Self::tree_candidates(&self.best.trees[ti]);
                let mut adopted = false;
                for cand in cands {
                    if self.used >= self.budget {
                        return progress;
                    }
                    // never hoist into a bare leaf root
                    if cand.k.arity() == 0 {
                        continue;
                    }
                    let mut c = self.best.clone();
                    c.trees[ti] = cand;
                    if self.attempt(c) {
                        adopted = true;
                        progress = true;
                        break;
                    }
                }
                if !adopted {
                    break;
                }
            }
        }
        progress
    }

    fn simpler_values(v: f64) -> Vec<f64> {
        let mut c = vec![];
        for x in [0.0, 1.0, -1.0, 2.0, v.round(), (v * 4.0).round() / 4.0, (v * 100.0).round() / 100.0] {
            if x != v && x.is_finite() && !c.contains(&x) && (x.abs() < v.abs() || x.abs() <= 2.0 || x == v.round()) {
                c.push(x);
            }
        }
        c
    }

    fn shrink_values(&mut self) -> bool {
        let mut progress = false;
        // all deliveries to one constant first
        for cst in [1.0, 0.0, 2.0] {
            let mut c = self.best.clone();
            for e in c.events.iter_mut() {
                if let Ev::D { v, .. } = e {
                    *v = cst;
                }
            }
            for f in c.feeds.iter_mut() {
                if let Feed::Lit(v) = f {
                    for x in v.iter_mut() {
                        *x = cst;
                    }
                }
            }
            progress |= self.attempt(c);
        }
        for i in 0..self.best.events.len() {
            if let Ev::D { v, .. } = self.best.events[i] {
                for x in Self::simpler_values(v) {
                    if self.used >= self.budget {
                        return progress;
                    }
                    let mut c = self.best.clone();
                    if let Ev::D { v, .. } = &mut c.events[i] {
                        *v = x;
                    }
                    if self.attempt(c) {
                        progress = true;
                        break;
                    }
                }
            }
        }
        for fi in 0..self.best.feeds.len() {
            let n = self.best.feeds[fi].len();
            if !matches!(self.best.feeds[fi], Feed::Lit(_)) {
                continue;
            }
            for i in 0..n {
                let cur = if let Feed::Lit(v) = &self.best.feeds[fi] { v[i] } else { continue };
                for x in Self::simpler_values(cur) {
                    if self.used >= self.budget {
                        return progress;
                    }
                    let mut c = self.best.clone();
                    if let Feed::Lit(v) = &mut c.feeds[fi] {
                        v[i] = x;
                    }
                    if self.attempt(c) {
                        progress = true;
                        break;
                    }
                }
            }
        }
        progress
    }
}

pub fn minimise(prop: &dyn Prop, sc: &Scenario, v: &Violation, budget: usize) -> Minimised {
    let mut m = M { prop, sig: v.sig(), budget, used: 0, best: sc.clone(), best_v: v.clone() };
    for _round in 0..6 {
        let mut p = false;
        p |= m.shrink_events();
        p |= m.shrink_feeds();
        p |= m.shrink_trees();
        p |= m.shrink_events();
        p |= m.shrink_feeds();
        p |= m.shrink_values();
        if !p || m.used >= m.budget {
            break;
        }
    }
    // refresh the violation against the final scenario (step numbers refer to it)
    let out = crate::runner::exec_hermetic(prop, &m.best);
    let v = out.violation.unwrap_or(m.best_v.clone());
    Minimised { scenario: m.best, violation: v, executions: m.used }
}
