#!/bin/sh
# validate MANIFEST.json and every evidence file against the schemas
cd "$(dirname "$0")/.." || exit 2
python3-vt - <<'PY'
import json, glob, sys, jsonschema
ok = True
m = json.load(open('MANIFEST.json'))
jsonschema.validate(m, json.load(open('/root/.vp/MANIFEST.schema.json')))
print('MANIFEST.json valid:', len(m['checks']), 'checks')
es = json.load(open('/root/.vp/EVIDENCE.schema.json'))
for f in sorted(glob.glob('evidence/*.json')):
    try:
        jsonschema.validate(json.load(open(f)), es); print(f, 'valid')
    except Exception as e:
        ok = False; print(f, 'INVALID', str(e)[:300])
ids = {json.loads(l)['id'] for l in open('properties.jsonl')}
cl = {c['property_id'] for c in m['checks']}
na = {c['property_id'] for c in m.get('not_applicable', [])}
if cl | na != ids or cl & na:
    ok = False; print('property partition wrong', ids - cl - na, cl & na)
sys.exit(0 if ok else 1)
PY
