#!/bin/bash
# Evaluate the checks against a seeded change WITHOUT touching /repo: a scratch copy of the simulator is
# built against a scratch worktree of /repo with the patch applied. Usage: mut_eval.sh <patch.diff> [props...]
# Prints one line per property: <id> rc=<0|1|2> and the first VIOLATION line.
set -u
patch=$1; shift
props=${*:-C01 C03 C08 C09 C15 C17 C18}
M=${MUTDIR:-/tmp/mut}
mkdir -p $M/sim $M/replays
rsync -a --delete --exclude target --exclude "target-build-*" ${SIMSRC:-/verif/sim}/ $M/sim/
sed -i "s|path = \"/repo\"|path = \"$M/repo\"|" $M/sim/Cargo.toml
[ -d $M/repo ] || git -C /repo worktree add -q --detach $M/repo HEAD
git -C $M/repo checkout -q -- . && git -C $M/repo clean -fdq
git -C $M/repo checkout -q --detach $(git -C /repo rev-parse HEAD) 2>/dev/null
if [ "$patch" != none ]; then git -C $M/repo apply "$patch" || { echo "patch does not apply"; exit 2; }; fi
( cd $M/sim && CARGO_NET_OFFLINE=true cargo build --offline --release >$M/build.log 2>&1 && CARGO_NET_OFFLINE=true cargo build --offline --profile dbg >>$M/build.log 2>&1 ) || { echo "build failed"; tail -20 $M/build.log; exit 2; }
for p in $props; do
  rm -f $M/replays/*.json
  out=$M/out.$p.txt
  if [ $p = C15 ]; then
    $M/sim/target/dbg/sim run $p ${TIER:-quick} --known /verif/known_findings.json --replays $M/replays > $out 2>&1; r1=$?
    $M/sim/target/release/sim run $p ${TIER:-quick} --known /verif/known_findings.json --replays $M/replays >> $out 2>&1; r2=$?
    rc=$(( r1 > r2 ? r1 : r2 ))
  else
    $M/sim/target/release/sim run $p ${TIER:-quick} --known /verif/known_findings.json --replays $M/replays > $out 2>&1; rc=$?
  fi
  echo "$p rc=$rc $(grep -A1 -m1 '^VIOLATION' $out | tail -1 | cut -c1-260)"
done
git -C $M/repo checkout -q -- .
