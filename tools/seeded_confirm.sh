#!/bin/bash
# The prescribed end-to-end confirmation: for every seeded change apply it to /repo itself, run the registered
# quick command of the property it breaks (and of every other check listed in caught_by), expect exit 1 with a
# VIOLATION line, then undo it straight away. Writes seeded/<id>/confirm.txt. Do not run while `vp run` jobs are
# active (they build from /repo).
set -u
cd /verif || exit 2
only=${1:-}   # optional: a regular expression on the directory name
git -C /repo diff --quiet || { echo "/repo has uncommitted changes"; exit 2; }
fail=0
for d in seeded/*/; do
  id=$(basename $d)
  [ -n "$only" ] && ! [[ "$id" =~ $only ]] && continue
  # the check of the property the change was written against; if that one is known not to catch it, the checks that do
  props=$(python3 -c "import json;m=json.load(open('$d/meta.json'));t=m['breaks_property'];c=m.get('caught_by',[]);print(t if t in c else ' '.join([t]+c))")
  target=$(python3 -c "import json;print(json.load(open('$d/meta.json'))['breaks_property'])")
  git -C /repo apply /verif/$d/patch.diff || { echo "$id: patch does not apply"; fail=1; continue; }
  : > $d/confirm.txt
  echo "# git -C /repo apply patch.diff (at /repo $(git -C /repo rev-parse --short HEAD), /verif $(git rev-parse --short HEAD)); ./check <ID> quick; git -C /repo checkout -- ." >> $d/confirm.txt
  for p in $props; do
    out=$(./check $p quick 2>&1); rc=$?
    line=$(echo "$out" | grep -m1 '^VIOLATION' )
    echo "$p exit=$rc $line" >> $d/confirm.txt
    echo "$out" | grep -A1 -m1 '^VIOLATION' | tail -1 | cut -c1-400 >> $d/confirm.txt
    if [ $p = $target ] && [ $rc -ne 1 ]; then echo "$id: TARGET CHECK $p DID NOT FLAG (exit $rc)"; fi
  done
  git -C /repo checkout -- .
  echo "$id: $(grep -c 'exit=1' $d/confirm.txt) of $(echo $props | wc -w) checks flagged"
done
# evidence files were rewritten by runs on mutated trees: regenerate on the clean tree
for p in C01 C03 C08 C09 C15 C17 C18; do ./check $p quick >/dev/null 2>&1 || { echo "clean-tree run of $p failed"; fail=1; }; done
rm -f replays/*.json
exit $fail
