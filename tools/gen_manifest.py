#!/usr/bin/env python3
"""Generate /verif/MANIFEST.json from the tables below (single source of truth).

Run: python3 tools/gen_manifest.py   (then tools/validate.sh)
"""
import json, os, sys

ROOT = os.path.dirname(os.path.dirname(os.path.abspath(__file__)))

NA = {
    "C02": "Pure input->output equality of each window statistic with its textbook definition over the last N values: a deterministic function of one object's input sequence; no schedule, clock, fault, resource or second party in the statement, so deciding it needs a reference formula (differential testing), not simulation.",
    "C04": "Pure input->output relations of Sma/Ema/Alma (convex hull, constants, monotonicity, affine commutation, closed-form recurrences): no schedule, fault or interleaving to simulate.",
    "C05": "Pure formula: Rsi/MyRSI equal gains/losses over the N most recent changes; a function of the input only.",
    "C06": "Pure formula: CTI/NET/CoG equal Pearson / Kendall / centre-of-gravity of the window; a function of the input only.",
    "C07": "Pure range inequality over all finite inputs; the hard cases are input shapes, not faults or schedules.",
    "C10": "Superposition for the linear views: a metamorphic relation between three independent runs of a pure function; nothing for a scheduler or fault injector to decide.",
    "C11": "Agreement with a batch re-evaluation of the cited difference equations: pure equality against a reference implementation.",
    "C12": "Invariance under units, offset and sign: a metamorphic relation between two runs of a pure function.",
    "C13": "WelfordRolling/Drawdown/LnReturn equal their batch definitions: pure formula; its 'any length' clause is numerical error growth, not liveness or a resource.",
    "C14": "Combinators are pointwise functions of their children's current outputs: pure formula; the one part with parties in it (gating on both children) is covered by C01.",
    "C16": "f64/f32 results track exact rational arithmetic: numerical analysis of a pure function; no schedule, fault or resource dimension.",
}

COMMON_NOTE = (
    "Seeded sampling, not proof. The library is single-threaded and synchronous (&mut self), so the schedule space is "
    "event-granular across replicas (update / last / clone / drop / thread migration) plus topology, stall, feed-fault and "
    "workload choices; there is no sub-call interleaving to explore. Trusted: the harness crate /verif/sim (Dyn boxing, "
    "Probe/Stall stubs, feed generator, oracles), rustc, and that all injected values are finite and in the property's domain."
)

PLANNED = ["C01", "C03", "C08", "C09", "C15", "C17", "C18"]

CHECKS = [
    # id, design_ref, technique, text, extra note
]

def load_checks():
    p = os.path.join(ROOT, "tools", "checks.json")
    if os.path.exists(p):
        return json.load(open(p))
    return []

def main():
    checks = []
    for c in load_checks():
        pid = c["id"]
        checks.append({
            "property_id": pid,
            "quick_cmd": f"./check {pid} quick",
            "thorough_cmd": f"./check {pid} thorough",
            "evidence_file": f"/verif/evidence/{pid}.json",
            "replay_cmd_template": "./check replay {path}",
            "engine": "sim",
            "level_claimed": {
                "category": "exploration",
                "text": c["text"],
                "design_ref": c["design_ref"],
            },
            "level_note": c.get("note", "") + (" " if c.get("note") else "") + COMMON_NOTE,
            "technique": c["technique"],
        })
    claimed = {c["property_id"] for c in checks}
    m = {
        "version": 1,
        "setup_cmd": "./check setup",
        "hooks": {
            "guard": "sliding_features_verif (unused: no hook was needed)",
            "enable": "none: /verif/sim depends on /repo by path and uses only seams the code already has (View trait, T: Float, Clone, catch_unwind, global allocator of the harness binary)",
            "baseline_off_cmd": "cd /repo && cargo test --workspace --no-fail-fast --offline",
            "source_commits": [],
            "add_only": True,
        },
        "engines": [{
            "name": "sim",
            "path": "/verif/sim",
            "serves_properties": sorted(claimed),
            "kind_free_text": "deterministic event simulator over real View trees: one PRNG (VERIF_SEED) decides topology, parameters, stalls, feed faults and the replica/event schedule; recorded histories are checked against reference executions; violations are minimised and written as replay files",
        }],
        "checks": checks,
        "notes": "See DESIGN.md. known_findings.json lists genuine defects recorded rather than repaired, and fixed: entries.",
        "not_applicable": [{"property_id": k, "reason": v} for k, v in sorted(NA.items()) if k not in claimed]
            + [{"property_id": k, "reason": "not claimed yet: the simulation check designed in DESIGN.md section 4 is still being built"}
               for k in PLANNED if k not in claimed],
    }
    json.dump(m, open(os.path.join(ROOT, "MANIFEST.json"), "w"), indent=1)
    print("wrote MANIFEST.json with", len(checks), "checks,", len(m["not_applicable"]), "n/a")

if __name__ == "__main__":
    main()
