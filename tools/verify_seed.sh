#!/bin/bash
# Confirm a seeded change independently in its scratch worktree:
#   demo passes on clean HEAD; with the patch the 43 library tests pass and the demo fails.
# usage: verify_seed.sh <worktree> <dir with patch.diff demo.rs>
wt=$1; d=$2
cd $wt || exit 2
git checkout -q -- . ; rm -f tests/demo.rs; mkdir -p tests
cp $d/demo.rs tests/demo.rs
clean=$(cargo test --offline --test demo 2>&1 | grep -E "^test result" | head -1)
git apply $d/patch.diff || { echo "APPLY-FAILED"; exit 1; }
mv tests/demo.rs /tmp/demo.rs.$$
lib=$(cargo test --workspace --offline 2>&1 | grep -E "^test result" | head -1)
mv /tmp/demo.rs.$$ tests/demo.rs
mut=$(cargo test --offline --test demo 2>&1 | grep -E "^test result" | head -1)
git checkout -q -- . ; rm -f tests/demo.rs
echo "clean-demo: $clean | lib-with-patch: $lib | demo-with-patch: $mut"
