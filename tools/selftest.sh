#!/bin/bash
# Determinism proof of the harness: every property's batch is executed twice in separate processes,
# with 16 workers and with 1 worker, for several VERIF_SEED values, in both build profiles; the
# per-run history hashes (FNV-1a over every event outcome and observed bit pattern) and violation
# signatures are diffed line by line. Any difference is a harness error.
set -u
V=${V:-$(cd "$(dirname "$0")/.." && pwd)}; REL=$V/sim/target/release/sim; DBG=$V/sim/target/dbg/sim
RUNS=${SELFTEST_RUNS:-2000}
tmp=$(mktemp -d /tmp/selftest.XXXXXX); trap 'rm -rf $tmp' EXIT
bad=0; total=0
for prop in C01 C03 C08 C09 C15 C17 C18; do
  n=$RUNS; case $prop in C09) n=$((RUNS/5));; C18) n=$((RUNS/4));; esac
  for seed in 20261002 1 987654321; do
    $REL run $prop quick --seed $seed --runs $n --workers 16 --hash-only --dump-hashes $tmp/a >/dev/null 2>&1 || { echo "selftest: run failed $prop"; bad=1; }
    $REL run $prop quick --seed $seed --runs $n --workers 1  --hash-only --dump-hashes $tmp/b >/dev/null 2>&1 || { echo "selftest: run failed $prop"; bad=1; }
    $REL run $prop quick --seed $seed --runs $n --workers 5  --hash-only --dump-hashes $tmp/c >/dev/null 2>&1 || { echo "selftest: run failed $prop"; bad=1; }
    total=$((total+n))
    if ! cmp -s $tmp/a $tmp/b || ! cmp -s $tmp/a $tmp/c; then
      echo "selftest: NONDETERMINISM in $prop seed=$seed:"; diff $tmp/a $tmp/b | head -5; bad=1
    fi
  done
done
# the debug-assertion build must be deterministic too (C15 uses it)
$DBG run C15 quick --runs $RUNS --workers 16 --hash-only --dump-hashes $tmp/a >/dev/null 2>&1
$DBG run C15 quick --runs $RUNS --workers 2 --hash-only --dump-hashes $tmp/b >/dev/null 2>&1
cmp -s $tmp/a $tmp/b || { echo "selftest: NONDETERMINISM in dbg build"; bad=1; }
if [ $bad -ne 0 ]; then echo "selftest FAILED"; exit 2; fi
echo "selftest ok: $total seeds x 3 executions (16, 1 and 5 workers, separate processes) + dbg build: all per-run history hashes identical"
