#!/usr/bin/env python3
"""Rebuild section 11 of DESIGN.md from tools/design11_head.md and seeded/*/meta.json."""
import subprocess, re
p='/verif/DESIGN.md'
s=open(p).read()
marker="\n---\n\n## 11. Seeded changes: which check catches which"
if marker in s:
    s=s[:s.index(marker)]
head=open('/verif/tools/design11_head.md').read()
table=subprocess.run(['python3','/verif/tools/seeded_table.py'],capture_output=True,text=True).stdout
s=s.rstrip('\n')+'\n'+head.rstrip('\n')+"\n\n### 11.4 The changes\n\n'caught by' lists every check that reported a VIOLATION for the change (quick tier, default seed, final machinery).\n\n"+table
open(p,'w').write(s)
print("section 11 rebuilt")
