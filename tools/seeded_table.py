#!/usr/bin/env python3
"""Print the markdown table of /verif/seeded/*/meta.json (used for DESIGN.md section 11)."""
import json, glob, os
rows=[]
for f in sorted(glob.glob('/verif/seeded/*/meta.json')):
    m=json.load(open(f)); d=os.path.basename(os.path.dirname(f))
    files=", ".join(os.path.basename(x) for x in m.get('files',[]))
    title=m.get('title','').replace('|','/')
    if len(title)>150: title=title[:147]+'...'
    need=m.get('needs_to_manifest','').replace('|','/').replace('\n',' ')
    if len(need)>170: need=need[:167]+'...'
    caught=", ".join(m.get('caught_by',[])) or "**none**"
    first=m.get('check_results',{}).get(m.get('breaks_property'),{}).get('first','')
    cls=''
    if 'class=' in first: cls=first.split('class=')[1].split()[0]
    rows.append((d.split('-')[0]+'/'+d.split('-')[1], files, title, need, caught, cls))
print("| seed | file | change | needs | caught by | class reported by the target check |")
print("|---|---|---|---|---|---|")
for r in rows: print("| %s | %s | %s | %s | %s | %s |"%r)
print()
print("%d seeded changes; %d caught by the check of the property they were written against; %d caught by at least one check."%(
  len(rows), sum(1 for r in rows if r[0].split('/')[0] in r[4]), sum(1 for r in rows if r[4]!='**none**')))
